#!/bin/bash
# usage: tools/confirm_seed.sh <worktree> <n> <test-target>...   -- confirm a seeded change: tests still pass, demo fails with / passes without
WT=$1; N=$2; shift 2
S=$WT/_seeded/$N
git -C $WT checkout -q -- src
git -C $WT apply $S/patch.diff || { echo "APPLY FAILED"; exit 3; }
[ -d $WT/_b ] || cmake -S $WT -B $WT/_b -G Ninja -DCMAKE_BUILD_TYPE=RelWithDebInfo -DBUILD_TESTS=ON > /dev/null
ninja -j4 -C $WT/_b "$@" > $S/build.log 2>&1 || { echo "BUILD FAILED"; tail -5 $S/build.log; git -C $WT checkout -q -- src; exit 4; }
ok=1
for t in "$@"; do ( cd $WT/_b/unit-tests && timeout 900 ./$t > $S/$t.log 2>&1 ) || { echo "TEST $t FAILED with patch"; ok=0; }; done
g++ -std=c++17 -O1 -I$WT/src $S/demo.cpp -o $S/demo_patched -fopenmp 2> $S/demo_build.log || g++ -std=c++17 -O1 -I$WT/src $S/demo.cpp -o $S/demo_patched 2>> $S/demo_build.log
( cd $S && timeout 600 ./demo_patched > demo_patched.log 2>&1 ); rp=$?
git -C $WT checkout -q -- src
g++ -std=c++17 -O1 -I$WT/src $S/demo.cpp -o $S/demo_clean -fopenmp 2>> $S/demo_build.log || g++ -std=c++17 -O1 -I$WT/src $S/demo.cpp -o $S/demo_clean 2>> $S/demo_build.log
( cd $S && timeout 600 ./demo_clean > demo_clean.log 2>&1 ); rc=$?
echo "tests_ok=$ok demo_with_patch_rc=$rp demo_clean_rc=$rc"
