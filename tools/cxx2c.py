#!/usr/bin/env python3
"""cxx2c - mechanical extraction of instantiated tbfmm C++ templates to C for CBMC.

Input : clang's JSON AST (instantiated, typed, desugared) of a small driver that *uses*
        the real templates from /repo/src.
Output: one C translation unit.  This is a printer: every AST node kind / cast kind /
        std:: entity has exactly one printing rule; anything outside the whitelist raises
        Unsupported (the caller turns that into exit status 2, "cannot extract").
No function body is written by hand; bodies come only from the AST.
"""
import json, os, re, subprocess, sys, hashlib
sys.path.insert(0, os.path.dirname(os.path.abspath(__file__)))
import cxxtypes as T


class Unsupported(Exception):
    pass


def load_docs_text(s):
    dec = json.JSONDecoder()
    i = 0
    docs = []
    n = len(s)
    while i < n:
        while i < n and s[i] in ' \n\r\t':
            i += 1
        if i >= n:
            break
        if s[i] != '{':
            j = s.find('\n', i)
            i = n if j < 0 else j + 1
            continue
        o, i = dec.raw_decode(s, i)
        docs.append(o)
    return docs


def run_clang(driver, incdirs, defines, filters, extra=()):
    docs = []
    for f in filters:
        cmd = ['clang++-14', '-std=c++17', '-fsyntax-only', '-Wno-everything']
        for d in incdirs:
            cmd += ['-I', d]
        for k, v in defines.items():
            cmd += ['-D%s=%s' % (k, v)]
        cmd += list(extra)
        cmd += ['-Xclang', '-ast-dump=json', '-Xclang', '-ast-dump-filter=' + f, driver]
        p = subprocess.run(cmd, stdout=subprocess.PIPE, stderr=subprocess.PIPE, text=True)
        if p.returncode != 0:
            raise Unsupported('clang failed on %s:\n%s' % (driver, p.stderr[-4000:]))
        docs += load_docs_text(p.stdout)
    return docs


DECL_KINDS = {'NamespaceDecl', 'ClassTemplateDecl', 'ClassTemplateSpecializationDecl', 'CXXRecordDecl',
              'FunctionTemplateDecl', 'FunctionDecl', 'CXXMethodDecl', 'CXXConstructorDecl', 'CXXDestructorDecl',
              'CXXConversionDecl', 'ClassTemplatePartialSpecializationDecl', 'TranslationUnitDecl', 'LinkageSpecDecl',
              'EnumDecl'}
FUNC_KINDS = {'FunctionDecl', 'CXXMethodDecl', 'CXXConstructorDecl', 'CXXDestructorDecl', 'CXXConversionDecl'}
REC_KINDS = {'CXXRecordDecl', 'ClassTemplateSpecializationDecl'}


def has_body(n):
    return any(isinstance(c, dict) and c.get('kind') == 'CompoundStmt' for c in n.get('inner', []) or [])


class Index:
    """All AST nodes by id, parent links between declarations, file/line of every node."""

    def __init__(self, docs):
        self.nodes = {}
        self.parent = {}      # decl id -> enclosing decl id
        self.stmt_owner = {}  # lambda closure record id -> enclosing function id
        self.docs = docs
        self.tops = []
        self.lambdas = []
        for d in docs:
            self.cur_file = None
            self.cur_line = None
            self._walk(d, None)
            self.tops.append(d)

    def _loc(self, loc):
        if not isinstance(loc, dict):
            return
        if 'spellingLoc' in loc or 'expansionLoc' in loc:
            for k in loc:
                if k in ('spellingLoc', 'expansionLoc'):
                    self._loc(loc[k])
            return
        if 'file' in loc:
            self.cur_file = loc['file']
        if 'line' in loc:
            self.cur_line = loc['line']

    def _walk(self, n, pdecl):
        if not isinstance(n, dict) or 'kind' not in n:
            return
        if 'loc' in n:
            self._loc(n['loc'])
        if 'range' in n:
            r = n['range']
            self._loc(r.get('begin'))
            n['_file'] = self.cur_file
            n['_line'] = self.cur_line
            # for macro expansions use the expansion line of the begin
            b = r.get('begin') or {}
            if 'expansionLoc' in b:
                pass
            self._loc(r.get('end'))
        nid = n.get('id')
        kind = n['kind']
        if nid is not None:
            old = self.nodes.get(nid)
            if old is None or (len(old.get('inner', []) or []) < len(n.get('inner', []) or [])):
                # keep annotations from the fuller node
                self.nodes[nid] = n
            if kind in DECL_KINDS or kind in ('VarDecl', 'FieldDecl', 'TypeAliasDecl', 'TypedefDecl', 'ParmVarDecl', 'EnumConstantDecl'):
                if pdecl is not None and (nid not in self.parent or n.get('inner')):
                    self.parent[nid] = pdecl
        if kind == 'LambdaExpr':
            n['_owner'] = pdecl
            self.lambdas.append(n)
        np = nid if kind in DECL_KINDS else pdecl
        if n.get('inner') and any(isinstance(c, dict) and c.get('kind', '').endswith('Attr') for c in n['inner']):
            n['inner'] = [c for c in n['inner'] if not (isinstance(c, dict) and c.get('kind', '').endswith('Attr'))]
        for c in n.get('inner', []) or []:
            self._walk(c, np)

    def get(self, nid):
        return self.nodes.get(nid)


def walk(n):
    if isinstance(n, dict):
        yield n
        for c in n.get('inner', []) or []:
            yield from walk(c)


STD_EMPTY_TAGS = ('std::integer_sequence', 'std::integral_constant', 'std::nullopt_t', 'std::allocator', 'std::less',
                  'std::true_type', 'std::false_type')


def mangle(s):
    s = s.replace('::', '__')
    s = re.sub(r'\(lambda at [^)]*?([A-Za-z0-9_]+)\.hpp:(\d+):(\d+)\)', r'lambda_\1_\2_\3', s)
    s = s.replace('unsigned ', 'u').replace('const ', 'c_').replace('*', '_p').replace('&', '_r')
    s = re.sub(r'[<,]', '_', s)
    s = s.replace('>', '')
    s = re.sub(r'[^A-Za-z0-9_]', '_', s)
    s = re.sub(r'_{3,}', '__', s)
    return s.strip('_')


class Unit:
    def __init__(self, docs, cfg):
        self.ix = Index(docs)
        self.cfg = cfg
        self.aliases = cfg.get('aliases', {})
        self.alias_rules = [(re.compile(a), b) for a, b in cfg.get('alias_rules', [])]
        self.rec_cname_cache = {}
        self.fn_alias_rules = [(re.compile(a), b) for a, b in cfg.get('fn_alias_rules', [])]
        self.cur_lam_env = {}
        self.fn_lam_env = {}
        self.closure_by_id = {}
        self.closure_by_loc = {}
        self.body_re = [re.compile(x) for x in cfg.get('bodies', [])]
        self.extern_re = [re.compile(x) for x in cfg.get('externs', [])]
        self.records = {}       # canonical name -> node
        self.rec_by_tmpl = {}   # template name (qualified, no args) -> [(args, node)]
        self.closures = {}      # 'file:line:col' -> [record nodes]
        self.canon_cache = {}
        self.build_record_table()
        # emission state
        self.type_defs = {}     # cname -> (deps, text)
        self.type_order = []
        self.func_names = {}    # id -> cname
        self.func_protos = {}   # cname -> text
        self.func_bodies = {}   # cname -> text
        self.func_info = {}     # cname -> dict(qual, file, line, loops)
        self.pending = []
        self.adapters = []
        self.used_names = {}
        self.std_used = set()
        self.loop_macros = []
        self.extern_funcs = {}
        self.warnings = []

    # ------------------------------------------------------------------ names of declarations
    def targs_of(self, n, ctx):
        out = []
        # clang dumps a 'true' bool template argument as the 1-bit signed value -1
        bool_pos = set()
        p = self.ix.parent.get(n.get('id'))
        pn = self.ix.get(p) if p else None
        if pn is not None and pn['kind'] in ('ClassTemplateDecl', 'FunctionTemplateDecl'):
            k = 0
            for c in pn.get('inner', []) or []:
                if c.get('kind') in ('TemplateTypeParmDecl', 'NonTypeTemplateParmDecl', 'TemplateTemplateParmDecl'):
                    if c.get('kind') == 'NonTypeTemplateParmDecl' and (c.get('type', {}).get('qualType') in ('bool', 'const bool')):
                        bool_pos.add(k)
                    k += 1

        def one(a):
            if 'type' in a:
                out.append(self.resolve(T.parse(a['type']['qualType']), ctx))
            elif 'value' in a:
                v = int(a['value'])
                if len(out) in bool_pos and v == -1:
                    v = 1
                out.append(('v', v))
            elif a.get('inner') and all(c.get('kind') == 'TemplateArgument' for c in a['inner']):
                for c in a['inner']:
                    one(c)
            elif 'isPack' in a or a.get('inner') is None and len(a) == 1:
                pass  # empty pack
            elif a.get('inner') and a['inner'][0].get('kind', '').endswith('Expr'):
                v = self.const_eval(a['inner'][0], ctx)
                out.append(('v', v))
            else:
                raise Unsupported('template argument %r' % ({k: v for k, v in a.items() if k != 'inner'},))
        for c in n.get('inner', []) or []:
            if c.get('kind') == 'TemplateArgument':
                one(c)
        return out

    def decl_comps(self, nid):
        """canonical qualified-name components of a declaration (list of (name, args|None))."""
        if nid in self.canon_cache:
            return self.canon_cache[nid]
        n = self.ix.get(nid)
        comps = []
        p = self.ix.parent.get(nid)
        k = n['kind']
        if p is not None:
            pk = self.ix.get(p)['kind']
            comps = list(self.decl_comps(p))
        if k in ('ClassTemplateDecl', 'FunctionTemplateDecl', 'TranslationUnitDecl', 'LinkageSpecDecl'):
            res = comps
        elif k == 'NamespaceDecl':
            res = comps + [(n.get('name', '(anonymous)'), None)] if n.get('name') else comps
            if n.get('isInline'):
                res = comps
        elif k == 'ClassTemplateSpecializationDecl':
            res = comps + [(n['name'], self.targs_of(n, p))]
        elif k == 'CXXRecordDecl':
            if n.get('name'):
                res = comps + [(n['name'], None)]
            else:
                res = comps + [('(lambda)', [('lam', '%s:%s' % (os.path.basename(n.get('_file') or '?'), n.get('_line')))])]
        elif k in FUNC_KINDS:
            ta = self.targs_of(n, p) if any(c.get('kind') == 'TemplateArgument' for c in n.get('inner', []) or []) else None
            res = comps + [(n.get('name', '?'), ta)]
        else:
            res = comps + [(n.get('name', '?'), None)]
        self.canon_cache[nid] = res
        return res

    def qual_name(self, nid, with_args=True):
        comps = self.decl_comps(nid)
        if with_args:
            return T.show(('n', comps))
        return '::'.join(c[0] for c in comps)

    def build_record_table(self):
        for nid, n in list(self.ix.nodes.items()):
            if n['kind'] in REC_KINDS and n.get('completeDefinition'):
                if n.get('isImplicit'):
                    continue
                p = self.ix.parent.get(nid)
                if n['kind'] == 'CXXRecordDecl' and p is not None and self.ix.get(p)['kind'] == 'ClassTemplateDecl':
                    continue  # the uninstantiated pattern
                if self.in_template_pattern(nid):
                    continue
                self._rec_pending = getattr(self, '_rec_pending', [])
                self._rec_pending.append(nid)
        # names are computed lazily (they need resolve, which needs the table for nested args);
        # do it in two passes: non-dependent first
        todo = list(getattr(self, '_rec_pending', []))
        progress = True
        while todo and progress:
            progress = False
            rest = []
            for nid in todo:
                n = self.ix.get(nid)
                try:
                    comps = self.decl_comps(nid)
                except (Unsupported, T.TypeErr) as e:
                    rest.append(nid)
                    continue
                progress = True
                name = T.show(('n', comps))
                self.records[name] = n
                n['_canon'] = name
                base = '::'.join(c[0] for c in comps)
                self.rec_by_tmpl.setdefault(base, []).append((comps, n))
            todo = rest
        self.unnamed_records = todo

    def in_template_pattern(self, nid):
        """true if the decl sits inside an uninstantiated template pattern."""
        p = self.ix.parent.get(nid)
        child = nid
        while p is not None:
            pn = self.ix.get(p)
            cn = self.ix.get(child)
            if pn['kind'] in ('ClassTemplateDecl', 'FunctionTemplateDecl') and cn['kind'] in ('CXXRecordDecl',) + tuple(FUNC_KINDS):
                # direct child of a template decl that is the pattern (not a specialization)
                if cn['kind'] == 'CXXRecordDecl':
                    return True
                if cn['kind'] in FUNC_KINDS and not any(c.get('kind') == 'TemplateArgument' for c in cn.get('inner', []) or []):
                    return True
            if pn['kind'] == 'ClassTemplatePartialSpecializationDecl':
                return True
            child = p
            p = self.ix.parent.get(p)
        return False

    # ------------------------------------------------------------------ scopes & resolution
    def scope_chain(self, ctx):
        out = []
        while ctx is not None:
            out.append(ctx)
            ctx = self.ix.parent.get(ctx)
        return out

    def template_bindings(self, nid):
        """name -> resolved arg for a specialization / function instantiation."""
        n = self.ix.get(nid)
        p = self.ix.parent.get(nid)
        if p is None:
            return {}
        pn = self.ix.get(p)
        if pn['kind'] not in ('ClassTemplateDecl', 'FunctionTemplateDecl'):
            return {}
        params = [c for c in pn.get('inner', []) or [] if c.get('kind') in ('TemplateTypeParmDecl', 'NonTypeTemplateParmDecl', 'TemplateTemplateParmDecl')]
        # for a ClassTemplateDecl that is a redeclaration the param names may differ; fine
        try:
            args = self.targs_of(n, self.ix.parent.get(p))
        except (Unsupported, T.TypeErr):
            return {}
        b = {}
        ai = 0
        for prm in params:
            if prm.get('isParameterPack'):
                b[prm.get('name')] = ('pack', args[ai:])
                ai = len(args)
            else:
                if ai < len(args):
                    b[prm.get('name')] = args[ai]
                ai += 1
        return b

    def members_named(self, nid, name):
        n = self.ix.get(nid)
        out = []
        for c in n.get('inner', []) or []:
            if isinstance(c, dict) and c.get('name') == name:
                out.append(c)
        # namespaces can be reopened: look at all namespace decls with the same name
        if n['kind'] == 'NamespaceDecl':
            for m in self.ix.nodes.values():
                if m is not n and m['kind'] == 'NamespaceDecl' and m.get('name') == n.get('name'):
                    for c in m.get('inner', []) or []:
                        if isinstance(c, dict) and c.get('name') == name:
                            out.append(c)
        return out

    def lookup_simple(self, name, ctx):
        """find a type-ish or constant entity called `name` visible from ctx. returns ('t', type) | ('v', int) | None"""
        for s in self.scope_chain(ctx):
            sn = self.ix.get(s)
            b = self.template_bindings(s)
            if name in b:
                x = b[name]
                if x[0] == 'v':
                    return ('v', x[1])
                if x[0] == 'pack':
                    return None
                return ('t', x)
            for c in self.members_named(s, name):
                r = self.entity_value(c, s)
                if r is not None:
                    return r
            if sn['kind'] in FUNC_KINDS:
                for c in walk(sn):
                    if c.get('kind') in ('TypeAliasDecl', 'TypedefDecl') and c.get('name') == name:
                        r = self.entity_value(c, s)
                        if r is not None:
                            return r
            if sn['kind'] in REC_KINDS and sn.get('name') == name:
                return ('t', ('n', self.decl_comps(s)))
        for d in self.ix.tops:
            if d.get('name') == name:
                r = self.entity_value(d, None)
                if r is not None:
                    return r
        return None

    def entity_value(self, c, scope):
        k = c.get('kind')
        if k in ('TypeAliasDecl', 'TypedefDecl'):
            ty = c['type']
            s = ty.get('desugaredQualType') or ty['qualType']
            try:
                return ('t', self.resolve(T.parse(s), scope))
            except (Unsupported, T.TypeErr):
                s = ty['qualType']
                return ('t', self.resolve(T.parse(s), scope))
        if k in REC_KINDS and c.get('completeDefinition') and not c.get('isImplicit'):
            return ('t', ('n', self.decl_comps(c['id'])))
        if k == 'VarDecl' and c.get('inner'):
            try:
                return ('v', self.const_eval(c['inner'][-1], scope))
            except Unsupported:
                return None
        if k == 'EnumConstantDecl':
            return ('v', self.const_eval(c, scope))
        return None

    def find_record(self, comps):
        name = T.show(('n', comps))
        name = name
        if name in self.records:
            return self.records[name]
        base = '::'.join(c[0] for c in comps)
        cands = self.rec_by_tmpl.get(base, [])
        good = []
        for cc, n in cands:
            ok = len(cc) == len(comps)
            if ok:
                for (n1, a1), (n2, a2) in zip(cc, comps):
                    if n1 != n2:
                        ok = False
                        break
                    if a1 is None and a2 is None:
                        continue
                    if a1 is None or a2 is None:
                        ok = False
                        break
                    if len(a2) > len(a1) or [T.show(x) for x in a1[:len(a2)]] != [T.show(x) for x in a2]:
                        ok = False
                        break
            if ok:
                good.append(n)
        if len(good) == 1:
            return good[0]
        return None

    def resolve(self, t, ctx, as_arg=False):
        k = t[0]
        if k in ('b', 'v'):
            return t
        if k == 'lam':
            if len(t) == 3:
                return t
            return ('lam', t[1], self.closure_for_loc(t[1]))
        if k in ('p', 'r', 'rr', 'c'):
            return (k, self.resolve(t[1], ctx))
        if k == 'a':
            return ('a', self.resolve(t[1], ctx), t[2])
        if k == 'f':
            return ('f', self.resolve(t[1], ctx), [self.resolve(x, ctx) for x in t[2]])
        comps = t[1]
        # resolve template args first
        rc = []
        for name, args in comps:
            if args is not None:
                rc.append((name, [self.resolve(a, ctx, as_arg=True) for a in args]))
            else:
                rc.append((name, None))
        comps = rc
        if comps[0][0] == 'std' or comps[0][0] == '__gnu_cxx':
            return self.resolve_std(comps, ctx)
        if comps[0][0] in ('size_t', 'ptrdiff_t', 'uintptr_t', 'intptr_t') and len(comps) == 1:
            return ('b', {'size_t': 'unsigned long', 'ptrdiff_t': 'long', 'uintptr_t': 'unsigned long', 'intptr_t': 'long'}[comps[0][0]])
        if comps[0][0] == '(lambda)':
            return ('n', comps)
        rec = self.find_record(comps)
        if rec is not None:
            return ('n', self.decl_comps(rec['id']))
        # alias / constant lookup
        if len(comps) == 1 and comps[0][1] is None:
            r = self.lookup_simple(comps[0][0], ctx)
            if r is None:
                raise Unsupported('cannot resolve type name %r (context %s)' % (comps[0][0], self.qual_name(ctx) if ctx else None))
            if r[0] == 'v':
                if not as_arg:
                    raise Unsupported('value %s used as type' % comps[0][0])
                return ('v', r[1])
            return r[1]
        if len(comps) >= 2:
            head = self.resolve(('n', comps[:-1]), ctx)
            head = T.strip_const(head)
            last, largs = comps[-1]
            if head[0] == 'n':
                if head[1][0][0] == 'std':
                    return self.resolve_std(head[1] + [(last, largs)], ctx)
                rec = self.find_record(head[1])
                if rec is None:
                    raise Unsupported('cannot find record %s' % T.show(head))
                if largs is None:
                    for c in self.members_named(rec['id'], last):
                        r = self.entity_value(c, rec['id'])
                        if r is not None:
                            if r[0] == 'v':
                                return ('v', r[1])
                            return r[1]
                    # a name of the template parameters?
                    b = self.template_bindings(rec['id'])
                    if last in b:
                        return b[last]
                rec2 = self.find_record(head[1] + [(last, largs)])
                if rec2 is not None:
                    return ('n', self.decl_comps(rec2['id']))
            raise Unsupported('cannot resolve %s::%s' % (T.show(head), last))
        # template-id that is an alias template or unknown
        r = None
        if comps[0][1] is not None and len(comps) == 1:
            # alias template: not supported generically
            raise Unsupported('unknown template-id %s' % T.show(('n', comps)))
        raise Unsupported('cannot resolve type %s' % T.show(('n', comps)))

    def resolve_std(self, comps, ctx):
        name = '::'.join(c[0] for c in comps)
        a0 = comps[1][1] if len(comps) > 1 else None
        simple = {'std::size_t': 'unsigned long', 'std::ptrdiff_t': 'long', 'std::array::size_type': 'unsigned long',
                  'std::vector::size_type': 'unsigned long', 'std::array::difference_type': 'long'}
        if name in simple:
            return ('b', simple[name])
        if name in ('std::decay::type', 'std::remove_reference::type', 'std::remove_const::type', 'std::remove_cv::type', 'std::decay_t', 'std::remove_reference_t'):
            x = a0[0]
            return T.strip_ref(x) if 'const' not in name else T.strip_const(x)
        if name in ('std::array::value_type', 'std::vector::value_type'):
            return a0[0]
        if name in ('std::array::reference', 'std::vector::reference'):
            return ('r', a0[0])
        if name in ('std::array::const_reference', 'std::vector::const_reference'):
            return ('r', ('c', a0[0]))
        if name in ('std::array::iterator', 'std::array::pointer', 'std::vector::iterator', 'std::vector::pointer'):
            return ('p', a0[0])
        if name in ('std::array::const_iterator', 'std::array::const_pointer', 'std::vector::const_iterator', 'std::vector::const_pointer'):
            return ('p', ('c', a0[0]))
        if name in ('__gnu_cxx::__alloc_traits::value_type', '__gnu_cxx::__alloc_traits::reference', '__gnu_cxx::__alloc_traits::const_reference'):
            x = a0[1] if len(a0) > 1 else a0[0][1][-1][1][0]
            return x if name.endswith('value_type') else ('r', x if 'const' not in name else ('c', x))
        if name == '__gnu_cxx::__normal_iterator':
            x = comps[1][1][0]
            return x  # pointer type
        if name == 'std::reference_wrapper':
            return ('p', a0[0])
        if name == 'std::unique_ptr':
            x = T.strip_const(a0[0])
            return ('p', x[1]) if x[0] == 'a' else ('p', x)
        if name == 'std::vector' and a0 is not None and len(a0) > 1:
            return ('n', [comps[0], ('vector', [a0[0]])])
        if name == 'std::set' and a0 is not None and len(a0) > 1:
            return ('n', [comps[0], ('set', [a0[0]])])
        if name in ('std::tuple_element::type',):
            i = a0[0][1]
            tup = T.strip_const(a0[1])
            return tup[1][1][1][i]
        if name == 'std::make_index_sequence' or name == 'std::index_sequence':
            return ('n', comps)
        return ('n', comps)

    # ------------------------------------------------------------------ constant evaluation
    def const_eval(self, n, ctx):
        k = n.get('kind')
        if k in ('IntegerLiteral',):
            return int(n['value'])
        if k == 'CXXBoolLiteralExpr':
            return 1 if n['value'] in (True, 'true', 'True') else 0
        if k == 'CharacterLiteral':
            return int(n['value'])
        if k == 'ConstantExpr' and 'value' in n:
            v = n['value']
            if v in ('true', True):
                return 1
            if v in ('false', False):
                return 0
            try:
                return int(v)
            except ValueError:
                pass
        if k in ('ImplicitCastExpr', 'ParenExpr', 'ConstantExpr', 'CXXStaticCastExpr', 'CStyleCastExpr', 'CXXFunctionalCastExpr', 'ExprWithCleanups'):
            return self.const_eval(n['inner'][-1], ctx)
        if k == 'SubstNonTypeTemplateParmExpr':
            return self.const_eval(n['inner'][-1], ctx)
        if k == 'UnaryOperator':
            v = self.const_eval(n['inner'][0], ctx)
            op = n['opcode']
            if op == '-':
                return -v
            if op == '+':
                return v
            if op == '!':
                return 0 if v else 1
            if op == '~':
                return ~v
        if k == 'BinaryOperator':
            a = self.const_eval(n['inner'][0], ctx)
            b = self.const_eval(n['inner'][1], ctx)
            op = n['opcode']
            import operator as O
            ops = {'+': O.add, '-': O.sub, '*': O.mul, '<<': O.lshift, '>>': O.rshift, '&': O.and_, '|': O.or_, '^': O.xor,
                   '<': lambda x, y: int(x < y), '>': lambda x, y: int(x > y), '<=': lambda x, y: int(x <= y), '>=': lambda x, y: int(x >= y),
                   '==': lambda x, y: int(x == y), '!=': lambda x, y: int(x != y), '&&': lambda x, y: int(bool(x) and bool(y)),
                   '||': lambda x, y: int(bool(x) or bool(y)),
                   '/': lambda x, y: int(x / y) if y else (_ for _ in ()).throw(Unsupported('div0')), '%': lambda x, y: x - y * int(x / y)}
            if op in ops:
                return ops[op](a, b)
        if k == 'ConditionalOperator':
            c = self.const_eval(n['inner'][0], ctx)
            return self.const_eval(n['inner'][1 if c else 2], ctx)
        if k == 'DeclRefExpr':
            r = n['referencedDecl']
            d = self.ix.get(r['id'])
            if d is None:
                raise Unsupported('constant refers to unknown decl %s' % r.get('name'))
            if d['kind'] == 'EnumConstantDecl':
                return self.const_eval(d, ctx)
            if d['kind'] == 'VarDecl' and d.get('inner'):
                return self.const_eval(d['inner'][-1], self.ix.parent.get(d['id']))
            if d['kind'] == 'NonTypeTemplateParmDecl':
                r2 = self.lookup_simple(d['name'], ctx)
                if r2 and r2[0] == 'v':
                    return r2[1]
        if k == 'EnumConstantDecl':
            for c in n.get('inner', []) or []:
                return self.const_eval(c, ctx)
            raise Unsupported('enum constant without explicit value: ' + n.get('name', '?'))
        if k == 'CallExpr' or k == 'CXXMemberCallExpr':
            v = self.const_call(n, ctx)
            if v is not None:
                return v
        if k == 'UnaryExprOrTypeTraitExpr' and n.get('name') == 'sizeof':
            pass
        if k == 'SizeOfPackExpr':
            for sc in self.scope_chain(ctx):
                b = self.template_bindings(sc)
                if n.get('name') in b and b[n['name']][0] == 'pack':
                    return len(b[n['name']][1])
            raise Unsupported('sizeof...(%s): pack not bound in scope' % n.get('name'))
        raise Unsupported('not a supported constant expression: %s' % k)

    def const_call(self, n, ctx):
        """evaluate calls to tiny constexpr functions with constant args by interpreting their body."""
        callee = n['inner'][0]
        fid = None
        for x in walk(callee):
            if x.get('kind') == 'DeclRefExpr' and x['referencedDecl']['kind'] in FUNC_KINDS:
                fid = x['referencedDecl']['id']
                break
            if x.get('kind') == 'MemberExpr' and 'referencedMemberDecl' in x:
                fid = x['referencedMemberDecl']
                break
        if fid is None:
            return None
        f = self.ix.get(fid)
        if f is None or not has_body(f):
            return None
        args = [self.const_eval(a, ctx) for a in n['inner'][1:]]
        params = [c for c in f['inner'] if c.get('kind') == 'ParmVarDecl']
        env = {p['id']: a for p, a in zip(params, args)}
        body = [c for c in f['inner'] if c.get('kind') == 'CompoundStmt'][0]
        return MiniInterp(self, self.ix.parent.get(fid), env).run(body)


class MiniInterp:
    """Interprets constexpr integer functions (lipow, getNbChildrenPerCell, ...) on constant arguments."""

    class Ret(Exception):
        def __init__(self, v):
            self.v = v

    def __init__(self, unit, ctx, env):
        self.u = unit
        self.ctx = ctx
        self.env = dict(env)
        self.steps = 0

    def run(self, body):
        try:
            self.stmt(body)
        except MiniInterp.Ret as r:
            return r.v
        raise Unsupported('constexpr function without return')

    def stmt(self, s):
        self.steps += 1
        if self.steps > 100000:
            raise Unsupported('constexpr interpretation too long')
        k = s.get('kind')
        if k is None:
            return
        if k == 'CompoundStmt':
            for c in s.get('inner', []) or []:
                self.stmt(c)
        elif k == 'DeclStmt':
            for v in s['inner']:
                if v['kind'] == 'VarDecl':
                    self.env[v['id']] = self.ev(v['inner'][-1]) if v.get('inner') else 0
        elif k == 'ReturnStmt':
            raise MiniInterp.Ret(self.ev(s['inner'][0]))
        elif k == 'ForStmt':
            init, cv, cond, inc, body = s['inner']
            if init.get('kind'):
                self.stmt(init)
            while (not cond.get('kind')) or self.ev(cond):
                self.stmt(body)
                if inc.get('kind'):
                    self.ev(inc)
        elif k == 'WhileStmt':
            cond, body = s['inner'][-2], s['inner'][-1]
            while self.ev(cond):
                self.stmt(body)
        elif k == 'IfStmt':
            inner = s['inner']
            if self.ev(inner[0]):
                self.stmt(inner[1])
            elif len(inner) > 2:
                self.stmt(inner[2])
        elif k == 'NullStmt':
            pass
        else:
            self.ev(s)

    def ev(self, n):
        k = n['kind']
        if k == 'DeclRefExpr' and n['referencedDecl']['id'] in self.env:
            return self.env[n['referencedDecl']['id']]
        if k in ('ImplicitCastExpr', 'ParenExpr', 'ConstantExpr', 'CXXStaticCastExpr', 'CStyleCastExpr', 'CXXFunctionalCastExpr'):
            if k == 'ConstantExpr' and 'value' in n:
                return self.u.const_eval(n, self.ctx)
            return self.ev(n['inner'][-1])
        if k == 'BinaryOperator' and n['opcode'] == '=':
            v = self.ev(n['inner'][1])
            self.env[self.lv(n['inner'][0])] = v
            return v
        if k == 'CompoundAssignOperator':
            tid = self.lv(n['inner'][0])
            a = self.env[tid]
            b = self.ev(n['inner'][1])
            op = n['opcode'][:-1]
            v = self.binop(op, a, b)
            self.env[tid] = v
            return v
        if k == 'UnaryOperator' and n['opcode'] in ('++', '--'):
            tid = self.lv(n['inner'][0])
            old = self.env[tid]
            self.env[tid] = old + (1 if n['opcode'] == '++' else -1)
            return old if n.get('isPostfix') else self.env[tid]
        if k == 'BinaryOperator':
            return self.binop(n['opcode'], self.ev(n['inner'][0]), self.ev(n['inner'][1]))
        if k == 'UnaryOperator':
            v = self.ev(n['inner'][0])
            return {'-': -v, '+': v, '!': int(not v), '~': ~v}[n['opcode']]
        return self.u.const_eval(n, self.ctx)

    def lv(self, n):
        while n['kind'] in ('ParenExpr', 'ImplicitCastExpr'):
            n = n['inner'][0]
        if n['kind'] == 'DeclRefExpr' and n['referencedDecl']['id'] in self.env:
            return n['referencedDecl']['id']
        raise Unsupported('constexpr interp: unsupported lvalue')

    def binop(self, op, a, b):
        if op == '/':
            return int(a / b)
        if op == '%':
            return a - b * int(a / b)
        if op == '&&':
            return int(bool(a) and bool(b))
        if op == '||':
            return int(bool(a) or bool(b))
        if op == ',':
            return b
        return int(eval('a %s b' % op))


# =====================================================================================
#                                       EMITTER
# =====================================================================================
INT_SUFFIX = {'int': '', 'long': 'L', 'unsigned long': 'UL', 'unsigned int': 'U', 'long long': 'LL',
              'unsigned long long': 'ULL', '_Bool': '', 'char': '', 'unsigned char': '', 'short': '', 'unsigned short': ''}

PASS_THROUGH_CASTS = {'LValueToRValue', 'NoOp', 'ArrayToPointerDecay', 'FunctionToPointerDecay', 'ConstructorConversion',
                      'UserDefinedConversion', 'BuiltinFnToFnPtr'}
VALUE_CASTS = {'IntegralCast', 'FloatingCast', 'IntegralToFloating', 'FloatingToIntegral', 'IntegralToBoolean',
               'FloatingToBoolean', 'PointerToBoolean', 'BitCast', 'PointerToIntegral', 'IntegralToPointer', 'BooleanToSignedIntegral'}


class FnCtx:
    def __init__(self, fid, cname):
        self.fid = fid
        self.cname = cname
        self.ntemps = 0
        self.temps = []      # stack of lists of temp declarations for the current statement
        self.loop_no = 0
        self.lambda_no = 0
        self.ret_is_ref = False
        self.self_name = 'self'
        self.captures = None  # for lambda call operators: {decl id -> ('ref'|'copy', fieldname)}
        self.this_capture = None


def type_of(n):
    ty = n.get('type') or {}
    return ty.get('desugaredQualType') or ty.get('qualType')


class Emitter(Unit):

    # --------------------------------------------------------------------------- types
    def ntype(self, n, ctx):
        """resolved type tree of an expression / decl node."""
        ty = n.get('type') or {}
        if '(lambda at' in (ty.get('qualType') or ''):
            # a closure returned by a called function was created inside that function
            self.closure_table()
            for x in self.walk_no_lambda(n):
                if x.get('kind') == 'DeclRefExpr' and x['referencedDecl']['kind'] in FUNC_KINDS:
                    fid2 = x['referencedDecl']['id']
                    for le in self.ix.lambdas:
                        if le.get('_owner') == fid2 and '_recid' in le:
                            m = re.match(r'\(lambda at (.*)\)', le['type']['qualType'])
                            if m:
                                self.cur_lam_env[m.group(1)] = le['_recid']
        for key in ('desugaredQualType', 'qualType'):
            s = ty.get(key)
            if not s:
                continue
            try:
                return self.resolve(T.parse(s), ctx)
            except (Unsupported, T.TypeErr) as e:
                err = e
                continue
        if n.get('kind') == 'VarDecl' and n.get('inner'):
            # auto-deduced declaration whose printed type keeps sugar from another scope: use the initialiser's type
            qs = (ty.get('qualType') or '').strip()
            init = n['inner'][-1]
            try:
                it = T.strip_ref(self.ntype(init, ctx))
                if qs.endswith('&&'):
                    return ('rr', it)
                if qs.endswith('&'):
                    return ('r', ('c', it) if qs.startswith('const') else it)
                if qs.endswith('*') or qs.endswith('* const'):
                    return self.ntype(init, ctx)
                return ('c', it) if qs.startswith('const') else it
            except (Unsupported, T.TypeErr):
                pass
        raise Unsupported('cannot resolve type %r of %s at %s:%s: %s' % (ty, n.get('kind'), n.get('_file'), n.get('_line'), err))

    def rec_kind(self, t):
        """classify a resolved ('n', comps) type"""
        comps = t[1]
        q = '::'.join(c[0] for c in comps)
        return q

    def record_cname(self, t):
        comps = t[1]
        q = '::'.join(c[0] for c in comps)
        canon = T.show(t)
        if canon in self.rec_cname_cache:
            return self.rec_cname_cache[canon]
        name = None
        for rx, nm in self.alias_rules:
            mm = rx.search(canon)
            if mm:
                name = nm if nm is not None else 'Verif' + mm.group(1)
                break
        if name is None:
            if q.startswith('std::'):
                args = comps[-1][1] or []
                short = q.replace('::', '_')
                if q in ('std::array', 'std::vector', 'std::pair', 'std::optional', 'std::tuple', 'std::set'):
                    name = short + '_' + '_'.join(self.tmangle(a) for a in args)
                elif any(q.startswith(x) for x in STD_EMPTY_TAGS):
                    name = 'std_empty'
                else:
                    raise Unsupported('unmodelled std type ' + canon)
            else:
                base = mangle(q)
                same = self.rec_by_tmpl.get(q, [])
                if len(same) <= 1:
                    name = base
                else:
                    name = mangle(self.abbr(t))
                    others = [T.show(('n', cc)) for cc, n in same if mangle(self.abbr(('n', cc))) == name]
                    if len(set(others)) > 1:
                        name = base + '__' + hashlib.sha1(canon.encode()).hexdigest()[:8]
        owner = self.used_names.setdefault(('rec', name), canon)
        if owner != canon and name != 'std_empty':
            name = name + '__' + hashlib.sha1(canon.encode()).hexdigest()[:8]
            self.used_names[('rec', name)] = canon
        self.rec_cname_cache[canon] = name
        return name

    def abbr(self, t):
        k = t[0]
        if k == 'n':
            out = []
            for i, (nm, args) in enumerate(t[1]):
                if args:
                    out.append(nm + '_' + '_'.join(self.abbr_arg(a) for a in args))
                else:
                    out.append(nm)
            return '::'.join(out)
        return self.abbr_arg(t)

    def abbr_arg(self, t):
        k = t[0]
        if k == 'n':
            nm, args = t[1][-1]
            if args:
                return nm + '_' + '_'.join(self.abbr_arg(a) for a in args)
            return nm
        if k == 'b':
            return t[1].replace('unsigned ', 'u').replace(' ', '')
        if k == 'v':
            return str(t[1]).replace('-', 'm')
        if k in ('c',):
            return self.abbr_arg(t[1])
        if k == 'p':
            return self.abbr_arg(t[1]) + 'p'
        if k in ('r', 'rr'):
            return self.abbr_arg(t[1]) + 'r'
        if k == 'lam':
            return 'lam'
        if k == 'a':
            return self.abbr_arg(t[1]) + 'a%s' % t[2]
        return 'x'

    def tmangle(self, t):
        k = t[0]
        if k == 'b':
            return t[1].replace('unsigned ', 'u').replace(' ', '_').replace('_Bool', 'bool')
        if k == 'v':
            return str(t[1]).replace('-', 'm')
        if k == 'c':
            return 'c' + self.tmangle(t[1])
        if k == 'p':
            return self.tmangle(t[1]) + '_p'
        if k in ('r', 'rr'):
            return self.tmangle(t[1]) + '_r'
        if k == 'n':
            return self.record_cname(t)
        if k == 'a':
            return self.tmangle(t[1]) + '_a%s' % t[2]
        if k == 'lam':
            return self.closure_cname(t[2]) if len(t) == 3 else 'lam'
        raise Unsupported('tmangle ' + repr(t))

    def is_record(self, t):
        t = T.strip_const(t)
        return t[0] == 'n'

    def closure_table(self):
        if getattr(self, '_closure_table', None) is None:
            tab = {}
            for le in self.ix.lambdas:
                owner = le.get('_owner')
                if owner is None or self.in_template_pattern(owner) or self.is_pattern_fn(owner):
                    continue
                m = re.match(r'\(lambda at (.*)\)', le['type']['qualType'])
                if not m:
                    continue
                rec = le['inner'][0]
                le['_recid'] = rec['id']
                tab.setdefault(m.group(1), []).append(le)
                self.closure_by_id[rec['id']] = le
            self._closure_table = tab
        return self._closure_table

    def is_pattern_fn(self, fid):
        """function that is itself an uninstantiated template pattern, or nested in one"""
        while fid is not None:
            n = self.ix.get(fid)
            if n['kind'] in FUNC_KINDS:
                t = n.get('type', {}).get('qualType', '')
                p = self.ix.parent.get(fid)
                if p is not None and self.ix.get(p)['kind'] == 'FunctionTemplateDecl' and not any(c.get('kind') == 'TemplateArgument' for c in n.get('inner', []) or []):
                    return True
            if n['kind'] == 'CXXRecordDecl' and self.ix.parent.get(fid) is not None and self.ix.get(self.ix.parent.get(fid))['kind'] == 'ClassTemplateDecl':
                return True
            fid = self.ix.parent.get(fid)
        return False

    def closure_for_loc(self, loc):
        tab = self.closure_table()
        if loc in self.cur_lam_env:
            return self.cur_lam_env[loc]
        c = tab.get(loc, [])
        ids = sorted({le['_recid'] for le in c})
        if len(ids) == 1:
            return ids[0]
        if not ids:
            raise Unsupported('closure type (lambda at %s) has no instantiated LambdaExpr in the dump' % loc)
        raise Unsupported('ambiguous closure type (lambda at %s): %d instantiations and no binding from a call site' % (loc, len(ids)))

    def closure_cname(self, recid):
        self.closure_table()
        le = self.closure_by_id[recid]
        if '_cname' in le:
            return le['_cname']
        owner = le['_owner']
        while self.ix.get(owner)['kind'] not in FUNC_KINDS:
            owner = self.ix.parent.get(owner)
        # ordinal among the lambdas of the owner, in source order
        sibs = [x for x in self.ix.lambdas if x.get('_owner') == le['_owner']]
        k = [x['inner'][0]['id'] for x in sibs].index(recid)
        on = self.ix.get(owner)
        if not on.get('name') or on.get('name') == 'operator()' and not self.ix.get(self.ix.parent.get(owner) if self.ix.get(self.ix.parent.get(owner))['kind'] != 'FunctionTemplateDecl' else self.ix.parent.get(self.ix.parent.get(owner))).get('name'):
            pass
        base = self.func_cname(owner)
        le['_cname'] = '%s__lam%d' % (base, k)
        self.ix.get(recid)['_cname'] = le['_cname']
        le['inner'][0]['_cname'] = le['_cname']
        return le['_cname']

    def closure_fields(self, recid):
        """[(fieldname, mode, type, init-expr-node)]"""
        le = self.closure_by_id[recid]
        rec = le['inner'][0]
        fields = [c for c in rec.get('inner', []) or [] if c.get('kind') == 'FieldDecl']
        inits = [c for c in le['inner'][1:] if c.get('kind') != 'CompoundStmt']
        if len(inits) == 1 and inits[0].get('kind') == 'ParenListExpr':
            inits = inits[0].get('inner', [])
        if len(inits) != len(fields):
            raise Unsupported('lambda capture list shape (%d fields, %d initialisers) at %s' % (len(fields), len(inits), le['type']['qualType']))
        out = []
        owner = le['_owner']
        for i, (f, e) in enumerate(zip(fields, inits)):
            fts = f['type']['qualType'].strip()
            e0 = e
            while e0.get('kind') in ('ImplicitCastExpr', 'ParenExpr', 'CXXConstructExpr', 'ExprWithCleanups') and e0.get('inner'):
                e0 = e0['inner'][0]
            if e0.get('kind') == 'CXXThisExpr':
                out.append(('cap_this', 'this', self.ntype(e0, owner), e0, None))
            elif e0.get('kind') == 'DeclRefExpr':
                mode = 'ref' if fts.endswith('&') else 'copy'
                ty = T.strip_ref(self.ntype(e0, owner))
                out.append(('cap_%s' % e0['referencedDecl']['name'], mode, ty, e, e0['referencedDecl']['id']))
            else:
                raise Unsupported('lambda init-capture of kind %s' % e0.get('kind'))
        return out

    def need_closure(self, recid):
        cn = self.closure_cname(recid)
        if cn in self.type_defs:
            return cn
        self.type_defs[cn] = None
        fl = []
        for name, mode, ty, e, vid in self.closure_fields(recid):
            if mode == 'ref':
                fl.append(self.ctype(('p', ty), name))
            else:
                fl.append(self.ctype(self.unconst_deep(ty), name))
        if not fl:
            fl.append('char _empty')
        self.type_defs[cn] = 'struct %s { %s; };' % (cn, '; '.join(fl))
        self.type_order.append(cn)
        return cn

    def ctype(self, t, name=''):
        """C declarator for resolved type t and identifier name."""
        k = t[0]
        sp = (' ' + name) if name else ''
        if k == 'b':
            return t[1] + sp
        if k == 'c':
            inner = t[1]
            if inner[0] in ('p',):
                return self.ctype(inner, ('const ' + name) if name else 'const')
            if inner[0] in ('r', 'rr'):
                return self.ctype(inner, name)
            if inner[0] == 'a':
                return self.ctype(('a', ('c', inner[1]), inner[2]), name)
            return 'const ' + self.ctype(inner, name)
        if k in ('p', 'r', 'rr'):
            inner = t[1]
            if T.strip_const(inner)[0] in ('a', 'f'):
                return self.ctype(inner, '(*%s)' % name)
            return self.ctype(inner, '*' + name)
        if k == 'a':
            return self.ctype(t[1], '%s[%s]' % (name, t[2] if t[2] is not None else ''))
        if k == 'f':
            return self.ctype(t[1], '%s(%s)' % (name, ', '.join(self.ctype(x) for x in t[2]) or 'void'))
        if k == 'n':
            return self.record_ctype(t) + sp
        if k == 'lam':
            if len(t) < 3:
                raise Unsupported('unresolved lambda type')
            return 'struct ' + self.need_closure(t[2]) + sp
        raise Unsupported('ctype ' + repr(t))

    def record_ctype(self, t):
        q = '::'.join(c[0] for c in t[1])
        rec = None
        if not q.startswith('std::'):
            rec = self.find_record(t[1])
            if rec is not None and rec['kind'] == 'EnumDecl':
                return 'int'
        cn = self.record_cname(t)
        self.need_record(t, cn)
        return 'struct ' + cn

    def need_record(self, t, cn):
        if cn in self.type_defs:
            return
        self.type_defs[cn] = None  # in progress
        comps = t[1]
        q = '::'.join(c[0] for c in comps)
        args = comps[-1][1] or []
        if q == 'std::array':
            el = self.ctype(args[0], 'd[%d]' % max(1, args[1][1]))
            text = 'struct %s { %s; };' % (cn, el)
        elif q == 'std::pair':
            text = 'struct %s { %s; %s; };' % (cn, self.ctype(self.unconst(args[0]), 'first'), self.ctype(self.unconst(args[1]), 'second'))
        elif q == 'std::optional':
            text = 'struct %s { _Bool has; %s; };' % (cn, self.ctype(self.unconst(args[0]), 'v'))
        elif q == 'std::vector':
            el = self.ctype(args[0])
            text = 'STD_VECTOR_TYPE(%s, %s)' % (cn, el)
            self.std_used.add(('vector', cn, el))
        elif q == 'std::set':
            el = self.ctype(args[0])
            text = 'STD_SET_TYPE(%s, %s)' % (cn, el)
        elif cn == 'std_empty':
            text = 'struct std_empty { char _e; };'
        elif q.startswith('std::'):
            raise Unsupported('unmodelled std record ' + T.show(t))
        else:
            rec = self.find_record(comps)
            if rec is None:
                raise Unsupported('record definition not found: ' + T.show(t))
            text = self.record_def(rec, cn)
        self.type_defs[cn] = text
        self.type_order.append(cn)

    def unconst(self, t):
        return T.strip_const(t)

    def record_def(self, rec, cn):
        fields = []
        rid = rec['id']
        for b in rec.get('bases', []) or []:
            bt = self.resolve(T.parse(b['type'].get('desugaredQualType') or b['type']['qualType']), rid)
            fields.append(self.ctype(self.unconst(bt), '_base'))
        for c in rec.get('inner', []) or []:
            if c.get('kind') == 'FieldDecl':
                ft = self.ntype(c, rid)
                ft = self.unconst_deep(ft)
                nm = c.get('name') or ('_f%d' % len(fields))
                fields.append(self.ctype(ft, nm))
        if not fields:
            fields.append('char _empty')
        return 'struct %s { %s; };' % (cn, '; '.join(fields))

    def unconst_deep(self, t):
        if t[0] == 'c':
            return self.unconst_deep(t[1]) if t[1][0] not in ('p',) else ('p', t[1][1])
        if t[0] == 'a':
            return ('a', self.unconst_deep(t[1]), t[2])
        return t

    # --------------------------------------------------------------------------- functions
    def is_method(self, f):
        return f['kind'] in ('CXXMethodDecl', 'CXXConstructorDecl', 'CXXDestructorDecl', 'CXXConversionDecl') and f.get('storageClass') != 'static'

    def is_const_method(self, f):
        s = f.get('type', {}).get('qualType', '')
        return bool(re.search(r'\)\s*const(\s|$|&|noexcept)', s))

    def func_cname(self, fid):
        if fid in self.func_names:
            return self.func_names[fid]
        f = self.ix.get(fid)
        comps = self.decl_comps(fid)
        p = self.ix.parent.get(fid)
        pk = self.ix.get(p) if p else None
        # class part: cname of the record, so aliases apply
        if f['kind'] in ('CXXMethodDecl', 'CXXConstructorDecl', 'CXXDestructorDecl', 'CXXConversionDecl'):
            recid = p
            if pk and pk['kind'] == 'FunctionTemplateDecl':
                recid = self.ix.parent.get(p)
            recn = self.ix.get(recid)
            if not recn.get('name'):
                # closure call operator
                base = self.closure_cname(recid) + '__call'
            else:
                rt = ('n', self.decl_comps(recid))
                rcn = self.record_cname(rt)
                nm = f.get('name', '')
                if f['kind'] == 'CXXConstructorDecl':
                    nm = 'ctor'
                elif f['kind'] == 'CXXDestructorDecl':
                    nm = 'dtor'
                elif nm.startswith('operator'):
                    nm = 'op_' + mangle({'operator=': 'assign', 'operator()': 'call', 'operator[]': 'index', 'operator<<': 'shl',
                                         'operator bool': 'bool', 'operator*': 'deref', 'operator==': 'eq', 'operator!=': 'ne',
                                         'operator<': 'lt', 'operator+': 'plus', 'operator-': 'minus', 'operator+=': 'pluseq',
                                         'operator-=': 'minuseq', 'operator<=': 'le', 'operator>': 'gt', 'operator>=': 'ge'}.get(nm, nm[8:]))
                base = rcn + '__' + nm
            if not recn.get('name'):
                sibs = []
                for c in walk(recn):
                    if c.get('kind') == 'CXXMethodDecl' and c.get('name') == 'operator()' and has_body(c) and \
                            (any(x.get('kind') == 'TemplateArgument' for x in c.get('inner', [])) or self.ix.get(self.ix.parent.get(c['id']))['kind'] != 'FunctionTemplateDecl'):
                        sibs.append(c)
                comps = comps[:-1] + [(comps[-1][0], None)]
            else:
                sibs = [c for c in self.siblings(fid) if c.get('name') == f.get('name') and c['kind'] == f['kind']]
        else:
            base = mangle('::'.join(c[0] for c in comps))
            sibs = [c for c in self.siblings(fid) if c.get('name') == f.get('name')]
        name = base
        if comps[-1][1]:
            name += '__' + '_'.join(self.tmangle(a) for a in comps[-1][1])
        sibs = [x for x in sibs if not x.get('isImplicit')]
        if len(sibs) > 1:
            # overloads: const / non-const pair -> __c ; otherwise parameter types
            sigs = set()
            for x in sibs:
                sigs.add(self.param_sig(x.get('type', {}).get('qualType', '')))
            if len(sigs) < len(sibs) and self.is_const_method(f):
                name += '__c'
            if len(sigs) > 1:
                params = [c for c in f.get('inner', []) or [] if c.get('kind') == 'ParmVarDecl']
                name += '__' + '_'.join(self.tmangle(self.ntype(pp, fid)) for pp in params) if params else '__void'
        for rx, tmpl in getattr(self, 'fn_alias_rules', []):
            mm = rx.search(name)
            if mm:
                name = mm.expand(tmpl)
                break
        owner = self.used_names.setdefault(('fn', name), fid)
        if owner != fid:
            name = name + '__' + hashlib.sha1((f.get('mangledName') or fid).encode()).hexdigest()[:8]
            self.used_names[('fn', name)] = fid
        self.func_names[fid] = name
        return name

    def param_sig(self, ts):
        # text of the parameter list of a function type string "ret (params) const"
        depth = 0
        end = None
        for i in range(len(ts) - 1, -1, -1):
            ch = ts[i]
            if ch == ')':
                if depth == 0 and end is None:
                    end = i
                depth += 1
            elif ch == '(':
                depth -= 1
                if depth == 0:
                    return re.sub(r'\s+', ' ', ts[i:end + 1])
        return ts

    def siblings(self, fid):
        p = self.ix.parent.get(fid)
        if p is None:
            return [d for d in self.ix.tops]
        pn = self.ix.get(p)
        if pn['kind'] == 'FunctionTemplateDecl':
            # siblings are the other members of the grandparent with the same name (templates or not)
            gp = self.ix.parent.get(p)
            out = []
            gpn = self.ix.get(gp) if gp else None
            pool = (gpn.get('inner', []) if gpn else self.ix.tops)
            if gpn is not None and gpn['kind'] == 'NamespaceDecl':
                pool = []
                for m in self.ix.nodes.values():
                    if m['kind'] == 'NamespaceDecl' and m.get('name') == gpn.get('name'):
                        pool += m.get('inner', []) or []
            seen = set()
            for c in pool:
                if c.get('id') in seen:
                    continue
                seen.add(c.get('id'))
                if c.get('kind') == 'FunctionTemplateDecl':
                    # the pattern stands for the template
                    out.append({'name': c.get('name'), 'kind': self.ix.get(fid)['kind'], 'type': {'qualType': self.pattern_type(c)}})
                elif c.get('kind') in FUNC_KINDS:
                    out.append(c)
            return out
        pool = pn.get('inner', []) or []
        if pn['kind'] == 'NamespaceDecl':
            pool = []
            for m in self.ix.nodes.values():
                if m['kind'] == 'NamespaceDecl' and m.get('name') == pn.get('name'):
                    pool += m.get('inner', []) or []
        out = []
        seen = set()
        for c in pool:
            if c.get('id') in seen:
                continue
            seen.add(c.get('id'))
            if c.get('kind') in FUNC_KINDS:
                out.append(c)
            elif c.get('kind') == 'FunctionTemplateDecl':
                out.append({'name': c.get('name'), 'kind': 'CXXMethodDecl' if pn['kind'] in REC_KINDS else 'FunctionDecl', 'type': {'qualType': self.pattern_type(c)}})
        return out

    def pattern_type(self, ftd):
        for c in ftd.get('inner', []) or []:
            if c.get('kind') in FUNC_KINDS:
                return c.get('type', {}).get('qualType', '')
        return ''

    def wants_body(self, fid):
        q = self.qual_name(fid, with_args=False)
        f = self.ix.get(fid)
        if not has_body(f):
            return False
        for r in self.extern_re:
            if r.search(q):
                return False
        for r in self.body_re:
            if r.search(q):
                return True
        return False

    def return_type(self, f, fid):
        """(resolved type, is_reference)"""
        if f['kind'] in ('CXXConstructorDecl', 'CXXDestructorDecl'):
            return ('b', 'void'), False
        s = f.get('type', {}).get('qualType', '')
        # the declared (possibly deduced) return type is the prefix of the function type
        try:
            ft = T.parse(s)
            if ft[0] == 'f':
                rt = self.resolve(ft[1], fid)
                if T.is_ref(rt):
                    return T.strip_const(rt)[1], True
                return rt, False
        except (Unsupported, T.TypeErr):
            pass
        # fallback: first return statement
        body = [c for c in f.get('inner', []) if c.get('kind') == 'CompoundStmt']
        if body:
            for x in self.walk_no_lambda(body[0]):
                if x.get('kind') == 'ReturnStmt':
                    if not x.get('inner'):
                        return ('b', 'void'), False
                    e = x['inner'][0]
                    return self.ntype(e, fid), e.get('valueCategory') == 'lvalue' and 'auto &' in s or ('&' in s.split('(')[0])
            return ('b', 'void'), False
        raise Unsupported('cannot determine return type of ' + self.qual_name(fid))

    def walk_no_lambda(self, n):
        if isinstance(n, dict):
            yield n
            if n.get('kind') == 'LambdaExpr':
                return
            for c in n.get('inner', []) or []:
                yield from self.walk_no_lambda(c)

    def signature(self, fid):
        f = self.ix.get(fid)
        cname = self.func_cname(fid)
        rt, isref = self.return_type(f, fid)
        params = []
        if self.is_method(f):
            recid = self.ix.parent.get(fid)
            if self.ix.get(recid)['kind'] == 'FunctionTemplateDecl':
                recid = self.ix.parent.get(recid)
            recn = self.ix.get(recid)
            if recn.get('name'):
                rtype = ('n', self.decl_comps(recid))
                st = self.record_ctype(rtype)
            else:
                self.closure_table()
                st = 'struct ' + self.need_closure(recid)
            params.append(('const ' if self.is_const_method(f) else '') + st + ' *self')
        i = 0
        for c in f.get('inner', []) or []:
            if c.get('kind') == 'ParmVarDecl':
                pt = self.ntype(c, fid)
                nm = c.get('name') or '_p%d' % i
                params.append(self.ctype(self.param_type(pt), nm))
                i += 1
        rts = self.ctype(('p', rt) if isref else self.unconst(rt))
        return rts, cname, params, isref

    def param_type(self, pt):
        # references become pointers; by-value const is kept
        return pt

    def request(self, fid):
        """make sure function fid is declared (and defined if its body is wanted). returns cname"""
        f = self.ix.get(fid)
        if f is None:
            raise Unsupported('call to a function whose declaration is not in the AST dump: ' + str(fid))
        cname = self.func_cname(fid)
        if cname in self.func_protos:
            return cname
        self.fn_lam_env[fid] = dict(self.cur_lam_env)
        rts, cname, params, isref = self.signature(fid)
        self.func_protos[cname] = '%s %s(%s)' % (rts, cname, ', '.join(params) or 'void')
        self.func_info[cname] = {'qual': self.qual_name(fid), 'file': f.get('_file'), 'line': f.get('_line'),
                                 'body': False, 'loops': [], 'returns_ref': isref}
        if self.wants_body(fid):
            self.pending.append(fid)
        return cname

    def run(self, roots):
        for pat in self.cfg.get('force_records', []):
            rx = re.compile(pat)
            for canon, rec in sorted(self.records.items()):
                if rx.search(canon):
                    self.record_ctype(('n', self.decl_comps(rec['id'])))
        for fid in roots:
            self.request(fid)
        while self.pending:
            fid = self.pending.pop(0)
            self.emit_function(fid)

    # ------------------------------------------------------------------ statements
    def emit_function(self, fid):
        f = self.ix.get(fid)
        cname = self.func_cname(fid)
        fc = FnCtx(fid, cname)
        fc.ret_is_ref = self.func_info[cname]['returns_ref']
        self.cur_lam_env = dict(self.fn_lam_env.get(fid, {}))
        recid = self.ix.parent.get(fid)
        if recid is not None and self.ix.get(recid)['kind'] == 'FunctionTemplateDecl':
            recid = self.ix.parent.get(recid)
        if recid is not None and self.ix.get(recid)['kind'] == 'CXXRecordDecl' and not self.ix.get(recid).get('name'):
            self.closure_table()
            fc.captures = {}
            for name, mode, ty, init, vid in self.closure_fields(recid):
                if mode == 'this':
                    fc.this_capture = name
                else:
                    fc.captures[vid] = (mode, name)
        self.fc_stack = getattr(self, 'fc_stack', [])
        self.fc_stack.append(fc)
        try:
            body = [c for c in f['inner'] if c.get('kind') == 'CompoundStmt'][0]
            lines = []
            if f['kind'] == 'CXXConstructorDecl':
                lines += self.ctor_inits(f, fc)
            lines += self.stmt(body, fc, 1, top=True)
            text = self.func_protos[cname] + '\n' + '\n'.join(lines) if f['kind'] != 'CXXConstructorDecl' else \
                self.func_protos[cname] + '\n{\n' + '\n'.join(lines) + '\n}'
            self.func_bodies[cname] = text
            self.func_info[cname]['body'] = True
            self.func_info[cname]['loops'] = fc.loop_no
        finally:
            self.fc_stack.pop()

    def ctor_inits(self, f, fc):
        out = []
        for c in f.get('inner', []) or []:
            if c.get('kind') == 'CXXCtorInitializer':
                e = c['inner'][0]
                fc.temps.append([])
                if 'anyInit' in c:
                    fld = c['anyInit']
                    target = 'self->%s' % fld['name']
                    fty = self.ntype(self.ix.get(fld['id']) or fld, fc.fid)
                    s = self.init_into(target, fty, e, fc)
                elif 'baseInit' in c:
                    s = self.init_into('self->_base', self.resolve(T.parse(c['baseInit'].get('desugaredQualType') or c['baseInit']['qualType']), fc.fid), e, fc)
                elif 'delegatingInit' in c:
                    bt = self.resolve(T.parse(c['delegatingInit'].get('desugaredQualType') or c['delegatingInit']['qualType']), fc.fid)
                    s = self.init_into('(*self)', bt, e, fc)
                else:
                    raise Unsupported('ctor initializer kind')
                tl = fc.temps.pop()
                out += ['  ' + t for t in tl]
                out.append('  ' + s)
        return out

    def init_into(self, target, ty, e, fc):
        """statement(s) initialising lvalue `target` of type ty from initializer expression node e"""
        if T.is_ref(ty):
            return '%s = %s;' % (target, self.addr(e, fc))     # reference member: stores the address
        e0 = self.skip_wrappers(e)
        if e0['kind'] == 'CXXConstructExpr':
            r = self.construct(e0, fc, target)
            if r is None:
                return '/* default-initialised %s */;' % target
            if r.startswith('@stmt:'):
                return r[6:]
            return '%s = %s;' % (target, r)
        if e0['kind'] == 'ImplicitValueInitExpr':
            return '__builtin_memset(&%s, 0, sizeof(%s));' % (target, target)
        if e0['kind'] == 'InitListExpr' and T.strip_const(ty)[0] == 'a':
            raise Unsupported('array member initialiser list')
        return '%s = %s;' % (target, self.expr(e, fc))

    def skip_wrappers(self, e):
        while e.get('kind') in ('ExprWithCleanups', 'MaterializeTemporaryExpr', 'CXXBindTemporaryExpr', 'ConstantExpr', 'ParenExpr') or \
                (e.get('kind') == 'ImplicitCastExpr' and e.get('castKind') in ('NoOp', 'ConstructorConversion')) or \
                (e.get('kind') == 'CXXFunctionalCastExpr' and e.get('castKind') in ('ConstructorConversion', 'NoOp')):
            if e.get('kind') == 'ConstantExpr' and not e.get('inner'):
                break
            e = e['inner'][-1]
        return e

    def line_marker(self, n, ind):
        if n.get('_line') and n.get('_file'):
            return '#line %d "%s"' % (n['_line'], n['_file'])
        return None

    def stmt(self, s, fc, ind=1, top=False):
        """returns list of C lines for statement s"""
        k = s.get('kind')
        pad = '  ' * ind
        if k is None:
            return []
        out = []
        lm = self.line_marker(s, ind)
        if k == 'CompoundStmt':
            out.append(pad[:-2] + '{')
            for c in s.get('inner', []) or []:
                if self.cfg.get('lazy_unsupported') and not top:
                    # opt-in per unit: a statement outside the translatable subset becomes a refutable `model:`
                    # obligation (reaching it makes the run undecided, exit 2); the rest of the block is dropped.
                    try:
                        out += self.stmt(c, fc, ind)
                    except Unsupported as ex:
                        out.append(pad + '__CPROVER_assert(0, "model: construct outside the extractable subset reached (%s)");' % str(ex).replace('"', "'").replace('\\', '/')[:160])
                        out.append(pad + '__CPROVER_assume(0);')
                        break
                else:
                    out += self.stmt(c, fc, ind)
            out.append(pad[:-2] + '}')
            return out
        if lm:
            out.append(lm)
        if k == 'NullStmt':
            return out + [pad + ';']
        if k == 'DeclStmt':
            for v in s['inner']:
                if v['kind'] == 'VarDecl':
                    out += self.vardecl(v, fc, pad)
                elif v['kind'] in ('TypeAliasDecl', 'TypedefDecl', 'StaticAssertDecl', 'UsingDecl', 'CXXRecordDecl'):
                    continue
                else:
                    raise Unsupported('declaration kind %s in function body' % v['kind'])
            return out
        if k == 'ReturnStmt':
            fc.temps.append([])
            if s.get('inner'):
                e = s['inner'][0]
                if fc.ret_is_ref:
                    v = self.addr(e, fc)
                else:
                    v = self.rvalue_of(e, fc)
                line = 'return %s;' % v
            else:
                line = 'return;'
            return out + self.flush(fc, pad) + [pad + line]
        if k == 'IfStmt':
            inner = s['inner']
            if s.get('hasInit') or s.get('hasVar'):
                raise Unsupported('if with init/condition variable')
            cond = inner[0]
            if s.get('isConstexpr'):
                v = self.const_eval(cond, fc.fid)
                live = inner[1] if v else (inner[2] if len(inner) > 2 else None)
                if live is None or live.get('kind') == 'NullStmt':
                    return out + [pad + '/* if constexpr: branch discarded */;']
                return out + self.block(live, fc, ind)
            fc.temps.append([])
            c = self.cond(cond, fc)
            out += self.flush(fc, pad)
            out.append(pad + 'if (%s)' % c)
            out += self.block(inner[1], fc, ind)
            if len(inner) > 2 and inner[2].get('kind'):
                out.append(pad + 'else')
                out += self.block(inner[2], fc, ind)
            return out
        if k in ('ForStmt', 'WhileStmt', 'DoStmt', 'CXXForRangeStmt'):
            return out + self.loop(s, fc, ind)
        if k == 'BreakStmt':
            return out + [pad + 'break;']
        if k == 'ContinueStmt':
            return out + [pad + 'continue;']
        # expression statement
        fc.temps.append([])
        e = self.expr(s, fc, discard=True)
        return out + self.flush(fc, pad) + [pad + e + ';']

    def flush(self, fc, pad):
        tl = fc.temps.pop()
        return [pad + t for t in tl]

    def block(self, s, fc, ind):
        if s.get('kind') == 'CompoundStmt':
            return self.stmt(s, fc, ind + 1)
        pad = '  ' * ind
        return [pad + '{'] + self.stmt(s, fc, ind + 1) + [pad + '}']

    def cond(self, e, fc):
        return self.expr(e, fc)

    def loop(self, s, fc, ind):
        pad = '  ' * ind
        k = s['kind']
        no = fc.loop_no
        fc.loop_no += 1
        macro = 'LC_%s_%d' % (fc.cname, no)
        self.loop_macros.append({'macro': macro, 'function': fc.cname, 'ordinal': no, 'file': s.get('_file'), 'line': s.get('_line'), 'kind': k})
        out = []
        if k == 'ForStmt':
            init, condvar, cond, inc, body = s['inner']
            if condvar.get('kind'):
                raise Unsupported('for with condition variable')
            out.append(pad + '{')
            if init.get('kind'):
                if init['kind'] == 'DeclStmt':
                    out += self.stmt(init, fc, ind + 1)
                else:
                    fc.temps.append([])
                    e = self.expr(init, fc, discard=True)
                    out += self.flush(fc, pad + '  ') + [pad + '  ' + e + ';']
            fc.temps.append([])
            c = self.cond(cond, fc) if cond.get('kind') else '1'
            i = self.expr(inc, fc, discard=True) if inc.get('kind') else ''
            out += self.flush(fc, pad + '  ')
            out.append(pad + '  for (; %s; %s)' % (c, i))
            out.append(pad + '  ' + macro)
            out += self.block(body, fc, ind + 1)
            out.append(pad + '}')
            return out
        if k == 'WhileStmt':
            inner = [c for c in s['inner']]
            if len(inner) == 3:
                raise Unsupported('while with condition variable')
            cond, body = inner
            fc.temps.append([])
            c = self.cond(cond, fc)
            out += self.flush(fc, pad)
            out.append(pad + 'while (%s)' % c)
            out.append(pad + macro)
            out += self.block(body, fc, ind)
            return out
        if k == 'DoStmt':
            body, cond = s['inner']
            fc.temps.append([])
            c = self.cond(cond, fc)
            out += self.flush(fc, pad)
            out.append(pad + 'do')
            out.append(pad + macro)
            out += self.block(body, fc, ind)
            out.append(pad + 'while (%s);' % c)
            return out
        if k == 'CXXForRangeStmt':
            # children: [init], range decl, begin decl, end decl, cond, inc, loop var decl, body
            inner = s['inner']
            if len(inner) == 8:
                init, rng, beg, end, cond, inc, lv, body = inner
                if init.get('kind'):
                    raise Unsupported('range-for with init')
            else:
                rng, beg, end, cond, inc, lv, body = inner
            out.append(pad + '{')
            for d in (rng, beg, end):
                out += self.stmt(d, fc, ind + 1)
            fc.temps.append([])
            c = self.cond(cond, fc)
            i = self.expr(inc, fc, discard=True)
            out += self.flush(fc, pad + '  ')
            out.append(pad + '  for (; %s; %s)' % (c, i))
            out.append(pad + '  ' + macro)
            out.append(pad + '  {')
            out += self.stmt(lv, fc, ind + 2)
            out += self.block(body, fc, ind + 2)
            out.append(pad + '  }')
            out.append(pad + '}')
            return out
        raise Unsupported(k)

    def new_temp(self, fc, ty):
        fc.ntemps += 1
        nm = '_t%d' % fc.ntemps
        fc.temps[-1].append(self.ctype(self.unconst_deep(T.strip_ref(ty)), nm) + ';')
        return nm

    def vla_type(self, v, fc):
        """GNU variable-length array whose bound is a call of a static constexpr member: long a[obj.f()]"""
        qs = (v.get('type') or {}).get('qualType', '')
        m = re.match(r'^(.*?)\[(?:this->)?(\w+)\.(\w+)\(\)\]$', qs)
        if not m:
            return None
        elt, fld, meth = m.group(1), m.group(2), m.group(3)
        rec = None
        for sc in self.scope_chain(fc.fid):
            sn = self.ix.get(sc)
            if sn['kind'] in REC_KINDS:
                for c in sn.get('inner', []) or []:
                    if c.get('kind') == 'FieldDecl' and c.get('name') == fld:
                        ft = T.strip_ref(self.ntype(c, sc))
                        if ft[0] == 'n':
                            rec = self.find_record(ft[1])
                break
        if rec is None:
            raise Unsupported('VLA bound %s: cannot find the object' % qs)
        for c in rec.get('inner', []) or []:
            if c.get('kind') == 'CXXMethodDecl' and c.get('name') == meth and has_body(c):
                body = [x for x in c['inner'] if x.get('kind') == 'CompoundStmt'][0]
                n = MiniInterp(self, rec['id'], {}).run(body)
                return ('a', self.resolve(T.parse(elt), fc.fid), int(n))
        raise Unsupported('VLA bound %s: method has no constexpr body' % qs)

    def vardecl(self, v, fc, pad):
        vt = self.vla_type(v, fc)
        if vt is not None:
            return [pad + self.ctype(vt, v['name']) + ';']
        ty = self.ntype(v, fc.fid)
        nm = v['name']
        out = []
        if v.get('storageClass') == 'static':
            raise Unsupported('static local variable ' + nm)
        fc.temps.append([])
        core = T.strip_const(ty)
        if core[0] in ('r', 'rr'):
            init = v['inner'][-1]
            a = self.addr(init, fc)
            decl = self.ctype(ty, nm) + ' = ' + a + ';'
            return self.flush(fc, pad) + [pad + decl]
        if not v.get('inner') or v.get('init') is None:
            return self.flush(fc, pad) + [pad + self.ctype(self.local_type(ty), nm) + ';']
        init = v['inner'][-1]
        i0 = self.skip_wrappers(init)
        if core[0] == 'a' and core[2] is None:
            # variable length array: size comes from the type's size expression (first child)
            raise Unsupported('VLA ' + nm)
        if i0['kind'] == 'CXXConstructExpr':
            r = self.construct(i0, fc, nm)
            d = self.ctype(self.local_type(ty), nm)
            if r is None:
                return self.flush(fc, pad) + [pad + d + ';']
            if r.startswith('@stmt:'):
                return [pad + d + ';'] + self.flush(fc, pad) + [pad + r[6:]]
            return self.flush(fc, pad) + [pad + d + ' = ' + r + ';']
        if i0['kind'] == 'InitListExpr':
            r = self.initlist(i0, fc, braces_only=True)
            return self.flush(fc, pad) + [pad + self.ctype(self.local_type(ty), nm) + ' = ' + r + ';']
        r = self.rvalue_of(init, fc)
        return self.flush(fc, pad) + [pad + self.ctype(self.local_type(ty), nm) + ' = ' + r + ';']

    def local_type(self, ty):
        # const record locals lose const (they may be initialised by a constructor call)
        if ty[0] == 'c' and T.strip_const(ty)[0] in ('n', 'a'):
            return self.unconst_deep(ty)
        return ty

    # ------------------------------------------------------------------ expressions
    def rvalue_of(self, e, fc):
        return self.expr(e, fc)

    def addr(self, e, fc):
        """C expression for the address of the object denoted by C++ glvalue (or temporary) e"""
        e0 = e
        while e0.get('kind') in ('ExprWithCleanups', 'CXXBindTemporaryExpr', 'ParenExpr') or \
                (e0.get('kind') == 'ImplicitCastExpr' and e0.get('castKind') == 'NoOp'):
            e0 = e0['inner'][-1]
        if e0.get('kind') == 'MaterializeTemporaryExpr' or e0.get('valueCategory') == 'prvalue':
            inner = e0['inner'][-1] if e0.get('kind') == 'MaterializeTemporaryExpr' else e0
            ty = self.ntype(e0, fc.fid)
            if T.strip_const(ty)[0] == 'f':
                return self.expr(inner, fc)
            t = self.new_temp(fc, ty)
            i0 = self.skip_wrappers(inner)
            if i0['kind'] == 'CXXConstructExpr':
                r = self.construct(i0, fc, t)
                if r is None:
                    return '&%s' % t
                if r.startswith('@stmt:'):
                    return '(%s, &%s)' % (r[6:].rstrip(';'), t)
                return '(%s = %s, &%s)' % (t, r, t)
            if i0['kind'] == 'InitListExpr':
                return '(%s = %s, &%s)' % (t, self.initlist(i0, fc), t)
            return '(%s = %s, &%s)' % (t, self.expr(inner, fc), t)
        s = self.expr(e0, fc)
        return self.addr_of_str(s)

    def addr_of_str(self, s):
        m = re.match(r'^\(\*([A-Za-z_][A-Za-z_0-9]*)\)$', s)
        if m:
            return m.group(1)
        if s.startswith('(*') and s.endswith(')') and self.balanced(s[2:-1]):
            return '(' + s[2:-1] + ')'
        return '(&%s)' % s

    def balanced(self, s):
        d = 0
        for ch in s:
            if ch == '(':
                d += 1
            elif ch == ')':
                d -= 1
                if d < 0:
                    return False
        return d == 0

    def lit_suffix(self, ty):
        t = T.strip_const(ty)
        return INT_SUFFIX.get(t[1], '') if t[0] == 'b' else ''

    def expr(self, e, fc, discard=False):
        k = e.get('kind')
        m = getattr(self, 'e_' + k, None)
        if m is None:
            raise Unsupported('expression node kind %s at %s:%s' % (k, e.get('_file'), e.get('_line')))
        return m(e, fc)

    def e_IntegerLiteral(self, e, fc):
        ty = self.ntype(e, fc.fid)
        v = int(e['value'])
        s = str(v) + self.lit_suffix(ty)
        return s if v >= 0 else '(%s)' % s

    def e_FloatingLiteral(self, e, fc):
        ty = T.strip_const(self.ntype(e, fc.fid))
        v = e['value']
        if not re.search(r'[.eEn]', v):
            v += '.0'
        return v + ('f' if ty[1] == 'float' else '')

    def e_CXXBoolLiteralExpr(self, e, fc):
        return '1' if e['value'] in (True, 'true', 'True') else '0'

    def e_CXXNullPtrLiteralExpr(self, e, fc):
        return '((void*)0)'

    def e_CharacterLiteral(self, e, fc):
        return str(int(e['value']))

    def e_ParenExpr(self, e, fc):
        return self.expr(e['inner'][0], fc)

    def e_ConstantExpr(self, e, fc):
        if e.get('inner'):
            return self.expr(e['inner'][0], fc)
        return str(self.const_eval(e, fc.fid))

    def e_CXXNewExpr(self, e, fc):
        if e.get('isPlacement') or e.get('isGlobal'):
            raise Unsupported('placement/global new')
        ty = T.strip_const(self.ntype(e, fc.fid))
        el = self.unconst(ty[1])
        if e.get('isArray'):
            size = e['inner'][0]
            valueinit = len(e['inner']) > 1 and e['inner'][1].get('kind') is not None
            if el[0] == 'n':
                q = '::'.join(c[0] for c in el[1])
                if q in ('std::array', 'std::pair'):
                    pass
                else:
                    rec = self.find_record(el[1]) if el[1][0][0] != 'std' else None
                    if rec is None or not self.all_trivial_members(rec):
                        raise Unsupported('array new of non-trivial type ' + T.show(el))
            if valueinit:
                return '((%s)calloc((unsigned long)%s, sizeof(%s)))' % (self.ctype(ty), self.expr(size, fc), self.ctype(el))
            return '((%s)malloc(((unsigned long)%s) * sizeof(%s)))' % (self.ctype(ty), self.expr(size, fc), self.ctype(el))
        raise Unsupported('scalar new expression')

    def e_CXXDeleteExpr(self, e, fc):
        return 'free((void*)%s)' % self.expr(e['inner'][0], fc)

    def e_SizeOfPackExpr(self, e, fc):
        return '%dUL' % self.const_eval(e, fc.fid)

    def e_SubstNonTypeTemplateParmExpr(self, e, fc):
        return self.expr(e['inner'][-1], fc)

    def e_ExprWithCleanups(self, e, fc):
        return self.expr(e['inner'][0], fc)

    def e_CXXBindTemporaryExpr(self, e, fc):
        return self.expr(e['inner'][0], fc)

    def e_MaterializeTemporaryExpr(self, e, fc):
        # used as an lvalue of a temporary: go through a hoisted temp
        a = self.addr(e, fc)
        return '(*%s)' % a

    def e_DeclRefExpr(self, e, fc):
        r = e['referencedDecl']
        rk = r['kind']
        if rk in ('VarDecl', 'ParmVarDecl'):
            d = self.ix.get(r['id'])
            if fc.captures is not None and r['id'] in fc.captures:
                mode, fld = fc.captures[r['id']]
                return '(*self->%s)' % fld if mode == 'ref' else '(self->%s)' % fld
            if d is not None and rk == 'VarDecl' and (d.get('constexpr') or d.get('storageClass') == 'static') and self.ix.parent.get(r['id']) != fc.fid and not self.is_local(r['id']):
                try:
                    v = self.const_eval(e, fc.fid)
                    ty = self.ntype(e, fc.fid)
                    s = str(v) + self.lit_suffix(ty)
                    return s if v >= 0 else '(%s)' % s
                except Unsupported:
                    raise Unsupported('reference to non-constant global/static %s' % r.get('name'))
            if d is not None and self.vla_type(d, fc) is not None:
                return r['name']
            ty = self.resolve(T.parse(r['type']['qualType']), fc.fid) if d is None else self.ntype(d, fc.fid)
            nm = r.get('name')
            if not nm:
                # unnamed parameter (implicit copy/move constructors): same _p<i> name as in the signature
                ps = [c for c in (self.ix.get(fc.fid).get('inner', []) or []) if c.get('kind') == 'ParmVarDecl']
                ids = [c['id'] for c in ps]
                if r['id'] not in ids:
                    raise Unsupported('reference to an unnamed declaration')
                nm = '_p%d' % ids.index(r['id'])
            if T.is_ref(ty):
                return '(*%s)' % nm
            return nm
        if rk == 'EnumConstantDecl':
            return str(self.const_eval(e, fc.fid))
        if rk in FUNC_KINDS:
            return self.request(r['id'])
        if rk == 'NonTypeTemplateParmDecl':
            return str(self.const_eval(e, fc.fid))
        if rk == 'BindingDecl':
            raise Unsupported('structured binding')
        raise Unsupported('DeclRefExpr to ' + rk)

    def is_local(self, vid):
        p = self.ix.parent.get(vid)
        return p is not None and self.ix.get(p)['kind'] in FUNC_KINDS

    def e_ImplicitCastExpr(self, e, fc):
        ck = e.get('castKind')
        inner = e['inner'][0]
        if ck in PASS_THROUGH_CASTS:
            return self.expr(inner, fc)
        if ck in VALUE_CASTS:
            ty = self.ntype(e, fc.fid)
            return '((%s)%s)' % (self.ctype(self.unconst(ty)), self.expr(inner, fc))
        if ck == 'NullToPointer':
            ty = self.ntype(e, fc.fid)
            return '((%s)0)' % self.ctype(self.unconst(ty))
        if ck == 'ToVoid':
            return '((void)%s)' % self.expr(inner, fc)
        if ck in ('DerivedToBase', 'UncheckedDerivedToBase'):
            s = self.expr(inner, fc)
            n = len(e.get('path', []) or [1])
            ty = T.strip_const(self.ntype(inner, fc.fid))
            if ty[0] == 'p':
                return '(&(%s)->%s)' % (s, '.'.join(['_base'] * n))
            return '(%s.%s)' % (s, '.'.join(['_base'] * n))
        raise Unsupported('cast kind %s at %s:%s' % (ck, e.get('_file'), e.get('_line')))

    def explicit_cast(self, e, fc):
        ck = e.get('castKind')
        inner = e['inner'][-1]
        if ck in ('NoOp', 'LValueToRValue'):
            if e['kind'] in ('CXXStaticCastExpr', 'CStyleCastExpr', 'CXXFunctionalCastExpr') and e.get('valueCategory') == 'prvalue':
                ty = T.strip_const(self.ntype(e, fc.fid))
                if ty[0] in ('b', 'p'):
                    return '((%s)%s)' % (self.ctype(ty), self.expr(inner, fc))
            return self.expr(inner, fc)
        if ck == 'ConstructorConversion' or ck == 'UserDefinedConversion':
            return self.expr(inner, fc)
        return self.e_ImplicitCastExpr(e, fc)

    e_CXXStaticCastExpr = explicit_cast
    e_CStyleCastExpr = explicit_cast
    e_CXXFunctionalCastExpr = explicit_cast
    e_CXXConstCastExpr = explicit_cast

    def e_CXXReinterpretCastExpr(self, e, fc):
        ty = self.ntype(e, fc.fid)
        return '((%s)%s)' % (self.ctype(self.unconst(ty)), self.expr(e['inner'][-1], fc))

    def e_BinaryOperator(self, e, fc):
        a, b = e['inner']
        op = e['opcode']
        if op == ',':
            return '(%s, %s)' % (self.expr(a, fc), self.expr(b, fc))
        return '(%s %s %s)' % (self.expr(a, fc), op, self.expr(b, fc))

    def e_CompoundAssignOperator(self, e, fc):
        a, b = e['inner']
        return '(%s %s %s)' % (self.expr(a, fc), e['opcode'], self.expr(b, fc))

    def e_UnaryOperator(self, e, fc):
        op = e['opcode']
        a = e['inner'][0]
        if op == '__extension__':
            return self.expr(a, fc)
        if op == '&':
            return self.addr(a, fc)
        if op == '*':
            return '(*%s)' % self.expr(a, fc)
        s = self.expr(a, fc)
        if op in ('++', '--'):
            return '(%s%s)' % (s, op) if e.get('isPostfix') else '(%s%s)' % (op, s)
        return '(%s%s)' % (op, s)

    def e_ConditionalOperator(self, e, fc):
        c, a, b = e['inner']
        # glibc assert():  cond ? (void)0 : __assert_fail(...)
        if any(x.get('kind') == 'DeclRefExpr' and x['referencedDecl'].get('name') == '__assert_fail' for x in walk(b)):
            txt = ''
            line = None
            strs = [x for x in walk(b) if x.get('kind') == 'StringLiteral']
            ints = [x for x in walk(b) if x.get('kind') == 'IntegerLiteral']
            if strs:
                txt = json.loads(strs[0]['value']) if strs[0]['value'].startswith('"') else strs[0]['value']
            fn = json.loads(strs[1]['value']) if len(strs) > 1 and strs[1]['value'].startswith('"') else ''
            if ints:
                line = ints[0]['value']
            msg = 'repo-assert %s:%s: %s' % (os.path.relpath(fn, '/repo') if fn.startswith('/repo') else fn, line, txt)
            msg = msg.replace('\\', '\\\\').replace('"', '\\"')
            return '__CPROVER_assert(%s, "%s")' % (self.expr(c, fc), msg)
        return '(%s ? %s : %s)' % (self.expr(c, fc), self.expr(a, fc), self.expr(b, fc))

    def e_ArraySubscriptExpr(self, e, fc):
        a, b = e['inner']
        return '%s[%s]' % (self.expr(a, fc), self.expr(b, fc))

    def e_CXXThisExpr(self, e, fc):
        if fc.this_capture:
            return '(self->%s)' % fc.this_capture
        return 'self'

    def e_MemberExpr(self, e, fc):
        base = e['inner'][0]
        mid = e.get('referencedMemberDecl')
        md = self.ix.get(mid) if mid else None
        if md is not None and md['kind'] in FUNC_KINDS:
            raise Unsupported('bound member function used as value')
        if md is not None and md['kind'] == 'VarDecl':
            # static data member accessed through an object
            v = self.const_eval({'kind': 'DeclRefExpr', 'referencedDecl': {'id': mid, 'kind': 'VarDecl', 'name': md.get('name')}}, fc.fid)
            return str(v) + self.lit_suffix(self.ntype(e, fc.fid))
        name = e['name']
        b = self.expr(base, fc)
        s = '%s->%s' % (b, name) if e.get('isArrow') else '%s.%s' % (b, name)
        fty = None
        if md is not None and md['kind'] == 'FieldDecl':
            fty = self.ntype(md, self.ix.parent.get(mid) or fc.fid)
            if T.is_ref(fty):
                return '(*%s)' % s
        return s

    def e_UnaryExprOrTypeTraitExpr(self, e, fc):
        if e.get('name') != 'sizeof':
            raise Unsupported('type trait ' + str(e.get('name')))
        if 'argType' in e:
            ty = self.resolve(T.parse(e['argType'].get('desugaredQualType') or e['argType']['qualType']), fc.fid)
            return 'sizeof(%s)' % self.ctype(self.unconst(T.strip_ref(ty)))
        return 'sizeof(%s)' % self.expr(e['inner'][0], fc)

    def e_InitListExpr(self, e, fc):
        return self.initlist(e, fc)

    def initlist(self, e, fc, braces_only=False):
        ty = self.ntype(e, fc.fid)
        items = []
        for c in e.get('inner', []) or []:
            c0 = self.skip_wrappers(c)
            if c0['kind'] == 'InitListExpr':
                items.append(self.initlist(c0, fc, braces_only=True))
            elif c0['kind'] == 'ImplicitValueInitExpr':
                items.append('0' if not self.is_record(self.ntype(c0, fc.fid)) else '{0}')
            elif c0['kind'] == 'CXXConstructExpr':
                r = self.construct(c0, fc, None)
                if r is None or r.startswith('@stmt:'):
                    raise Unsupported('non-trivial construction inside initializer list')
                items.append(r)
            else:
                items.append(self.expr(c, fc))
        if e.get('array_filler') and not items:
            items = ['0']
        body = '{' + ', '.join(items or ['0']) + '}'
        if braces_only:
            return body
        return '((%s)%s)' % (self.ctype(self.unconst_deep(ty)), body)

    def e_ImplicitValueInitExpr(self, e, fc):
        ty = self.ntype(e, fc.fid)
        if self.is_record(ty):
            return '((%s){0})' % self.ctype(self.unconst_deep(ty))
        return '((%s)0)' % self.ctype(self.unconst(ty))

    def e_CXXScalarValueInitExpr(self, e, fc):
        return self.e_ImplicitValueInitExpr(e, fc)

    def e_CXXDefaultArgExpr(self, e, fc):
        raise Unsupported('default argument (needs parameter context)')

    def e_StringLiteral(self, e, fc):
        return e['value']

    def e_PredefinedExpr(self, e, fc):
        return '""'

    # ---- construction
    def find_ctor(self, rec, ctor_type):
        for c in rec.get('inner', []) or []:
            if c.get('kind') == 'CXXConstructorDecl' and c.get('type', {}).get('qualType') == ctor_type:
                return c
            if c.get('kind') == 'FunctionTemplateDecl':
                for cc in c.get('inner', []) or []:
                    if cc.get('kind') == 'CXXConstructorDecl' and cc.get('type', {}).get('qualType') == ctor_type and has_body(cc):
                        return cc
        return None

    def construct(self, e, fc, target):
        """CXXConstructExpr.  returns: None (trivial default), a C value expression, or '@stmt:...' (constructor call on target)"""
        ty = T.strip_const(self.ntype(e, fc.fid))
        args = e.get('inner', []) or []
        if ty[0] != 'n':
            if len(args) == 1:
                return self.expr(args[0], fc)
            raise Unsupported('construct non-record')
        q = '::'.join(c[0] for c in ty[1])
        ctor_type = e.get('ctorType', {}).get('qualType', '')
        if q.startswith('std::'):
            return self.std_construct(q, ty, e, args, fc, target)
        rec = self.find_record(ty[1])
        if rec is None:
            raise Unsupported('construct unknown record ' + T.show(ty))
        # copy / move of the same type with implicit trivial ctor: struct copy
        ctor = self.find_ctor(rec, ctor_type)
        if ctor is None:
            raise Unsupported('constructor %s of %s not found' % (ctor_type, T.show(ty)))
        if not has_body(ctor) or (ctor.get('isImplicit') and self.all_trivial_members(rec)):
            if len(args) == 0:
                nsdmi = [c for c in rec.get('inner', []) or [] if c.get('kind') == 'FieldDecl' and c.get('hasInClassInitializer') and c.get('inner')]
                zeroing = e.get('zeroing') or e.get('kind') == 'CXXTemporaryObjectExpr'
                if nsdmi or zeroing:
                    # value-initialisation / default member initialisers: members not named are zero in a C compound literal
                    items = ['.%s = %s' % (c['name'], self.expr(c['inner'][-1], fc)) for c in nsdmi]
                    return '((%s){%s})' % (self.ctype(ty), ', '.join(items) or '0')
                return None
            if len(args) == 1:
                return self.expr(args[0], fc)
            raise Unsupported('implicit constructor with several arguments')
        cargs = self.call_args(ctor, args, fc)
        cname = self.request(ctor['id'])
        if target is None:
            t = self.new_temp(fc, ty)
            return '(%s(%s), %s)' % (cname, ', '.join(['&' + t] + cargs), t)
        return '@stmt:%s(%s);' % (cname, ', '.join(['&' + target if not target.startswith('(*') else self.addr_of_str(target)] + cargs))

    def all_trivial_members(self, rec):
        dd = rec.get('definitionData', {})
        return dd.get('isTriviallyCopyable', False) or dd.get('isTrivial', False) or dd.get('isPOD', False) or dd.get('isAggregate', False) or \
            dd.get('copyCtor', {}).get('trivial', False)

    def std_construct(self, q, ty, e, args, fc, target):
        cn = self.record_cname(ty)
        self.need_record(ty, cn)
        if q in ('std::array', 'std::pair') or cn == 'std_empty':
            if len(args) == 0:
                return None if q != 'std::pair' else '((struct %s){0})' % cn
            if len(args) == 1 and q == 'std::array':
                return self.expr(args[0], fc)
            if q == 'std::pair':
                if len(args) == 1:
                    at = T.strip_ref(self.ntype(args[0], fc.fid))
                    if at != ty and at[0] == 'n' and '::'.join(c[0] for c in at[1]) == 'std::pair':
                        # converting constructor pair<A,B> -> pair<A',B'> (references / reference_wrapper are both pointers)
                        t = self.new_temp(fc, at)
                        return '(%s = %s, (struct %s){%s.first, %s.second})' % (t, self.expr(args[0], fc), cn, t, t)
                    return self.expr(args[0], fc)
                return '((struct %s){%s, %s})' % (cn, self.expr(args[0], fc), self.expr(args[1], fc))
            if cn == 'std_empty':
                return '((struct std_empty){0})'
        if q == 'std::optional':
            if len(args) == 0:
                return '((struct %s){0})' % cn
            a0t = T.strip_ref(self.ntype(args[0], fc.fid))
            if a0t[0] == 'n' and '::'.join(c[0] for c in a0t[1]) == 'std::optional':
                return self.expr(args[0], fc)
            if a0t[0] == 'n' and '::'.join(c[0] for c in a0t[1]) == 'std::nullopt_t':
                return '((struct %s){0})' % cn
            vt = T.strip_const(ty[1][-1][1][0])
            if vt != a0t and vt[0] == 'n' and a0t[0] == 'n' and '::'.join(c[0] for c in vt[1]) == 'std::pair' and '::'.join(c[0] for c in a0t[1]) == 'std::pair':
                t = self.new_temp(fc, a0t)
                pcn = self.record_cname(vt)
                self.need_record(vt, pcn)
                return '(%s = %s, (struct %s){1, (struct %s){%s.first, %s.second}})' % (t, self.expr(args[0], fc), cn, pcn, t, t)
            return '((struct %s){1, %s})' % (cn, self.expr(args[0], fc))
        if q == 'std::set' and len(args) == 0:
            return '((struct %s){0})' % cn
        if q == 'std::vector':
            if len(args) == 0:
                if target is None:
                    return '((struct %s){0})' % cn     # empty vector; the model allocates lazily
                return '@stmt:%s__ctor(&%s);' % (cn, target)
            if len(args) == 1:
                a0t = T.strip_ref(self.ntype(args[0], fc.fid))
                if a0t == ty:
                    if args[0].get('valueCategory') == 'xvalue' or self.skip_wrappers(args[0]).get('valueCategory') in ('xvalue', 'prvalue'):
                        return self.expr(args[0], fc)   # move: shallow struct copy (destructors are dropped)
                    if target is None:
                        raise Unsupported('vector copy temporary')
                    return '@stmt:%s__copy(&%s, %s);' % (cn, target, self.addr(args[0], fc))
            ct = e.get('ctorType', {}).get('qualType', '')
            if ct.startswith('void (std::vector::size_type') or ct.startswith('void (size_type'):
                # vector(n): n value-initialised elements (the allocator default argument is ignored)
                if target is None:
                    raise Unsupported('sized vector temporary')
                return '@stmt:%s__ctor_n(&%s, %s);' % (cn, target, self.expr(args[0], fc))
            raise Unsupported('std::vector constructor with arguments %s' % e.get('ctorType'))
        raise Unsupported('construction of ' + q)

    # ---- calls
    def callee_decl(self, e):
        c = e['inner'][0]
        while c.get('kind') in ('ImplicitCastExpr', 'ParenExpr'):
            c = c['inner'][0]
        return c

    def call_args(self, fdecl, args, fc, ptypes=None):
        """translate actual arguments; reference parameters receive addresses"""
        out = []
        params = [c for c in (fdecl.get('inner', []) or []) if c.get('kind') == 'ParmVarDecl'] if fdecl is not None else []
        self.bind_lambdas(args)
        for i, a in enumerate(args):
            if a.get('kind') == 'CXXDefaultArgExpr':
                if i < len(params) and params[i].get('inner'):
                    a = params[i]['inner'][-1]
                else:
                    raise Unsupported('default argument without visible initialiser')
            isref = False
            if ptypes is not None and i < len(ptypes):
                isref = T.is_ref(ptypes[i])
            elif i < len(params):
                isref = T.is_ref(self.ntype(params[i], fdecl['id']))
            if isref:
                out.append(self.addr(a, fc))
            else:
                a0 = self.skip_wrappers(a)
                if a0['kind'] == 'CXXConstructExpr':
                    r = self.construct(a0, fc, None)
                    if r is None:
                        t = self.new_temp(fc, self.ntype(a0, fc.fid))
                        out.append(t)
                    else:
                        out.append(r)
                else:
                    out.append(self.expr(a, fc))
        return out

    def bind_lambdas(self, args):
        """closures created in an argument list bind their type for the callee"""
        self.closure_table()
        for a in args:
            for x in self.walk_no_lambda(a):
                if x.get('kind') == 'LambdaExpr':
                    m = re.match(r'\(lambda at (.*)\)', x['type']['qualType'])
                    if m and x['inner'][0]['id'] in self.closure_by_id:
                        self.cur_lam_env[m.group(1)] = x['inner'][0]['id']

    def e_CallExpr(self, e, fc):
        c = self.callee_decl(e)
        args = e['inner'][1:]
        self.bind_lambdas(args)
        if c.get('kind') == 'MemberExpr' and c.get('referencedMemberDecl') and self.ix.get(c['referencedMemberDecl']) is not None \
                and self.ix.get(c['referencedMemberDecl'])['kind'] in FUNC_KINDS and self.ix.get(c['referencedMemberDecl']).get('storageClass') == 'static':
            md = self.ix.get(c['referencedMemberDecl'])
            c = {'kind': 'DeclRefExpr', 'referencedDecl': {'id': md['id'], 'kind': md['kind'], 'name': md.get('name')}}
        if c.get('kind') != 'DeclRefExpr':
            raise Unsupported('indirect call at %s:%s' % (e.get('_file'), e.get('_line')))
        r = c['referencedDecl']
        fd = self.ix.get(r['id'])
        q = self.callee_qual(r, fd, c)
        if q.startswith('std::') or fd is None:
            return self.std_call(q, e, args, fc, r)
        cargs = self.call_args(fd, args, fc)
        cname = self.request(r['id'])
        s = '%s(%s)' % (cname, ', '.join(cargs))
        if self.func_info[cname]['returns_ref']:
            return '(*%s)' % s
        return s

    def callee_qual(self, r, fd, c=None):
        if fd is not None and self.ix.parent.get(r['id']) is not None:
            return self.qual_name(r['id'], with_args=False)
        # not in the dump: a std:: or libc function.  names of libc functions are global.
        nm = r.get('name', '?')
        if nm in ('abs', 'labs', 'llabs', 'fabs', 'sqrt', 'memset', 'memcpy', 'floor', 'ceil', 'pow', 'log2', 'exp', 'log', 'getenv'):
            return 'std::' + nm
        if fd is not None:
            return nm
        return 'std::' + nm

    def e_CXXMemberCallExpr(self, e, fc):
        me = e['inner'][0]
        while me.get('kind') in ('ParenExpr', 'ImplicitCastExpr'):
            me = me['inner'][0]
        args = e['inner'][1:]
        self.bind_lambdas(args)
        if me.get('kind') != 'MemberExpr':
            raise Unsupported('member call through %s' % me.get('kind'))
        obj = me['inner'][0]
        oty = T.strip_const(self.ntype(obj, fc.fid))
        if me.get('isArrow'):
            if oty[0] != 'p':
                raise Unsupported('-> on non-pointer (smart pointer?)')
            oty = T.strip_const(oty[1])
        if oty[0] == 'n' and oty[1][0][0] == 'std':
            return self.std_member_call(oty, me['name'], obj, me.get('isArrow'), args, e, fc)
        if oty[0] == 'p' and not me.get('isArrow'):
            # reference_wrapper / iterator modelled as pointer
            return self.ptr_member_call(oty, me['name'], obj, args, e, fc)
        mid = me.get('referencedMemberDecl')
        fd = self.ix.get(mid)
        if fd is None:
            raise Unsupported('member function %s not in AST dump' % me.get('name'))
        cname = self.request(mid)
        if fd.get('storageClass') == 'static':
            s = '%s(%s)' % (cname, ', '.join(self.call_args(fd, args, fc)))
        else:
            o = self.expr(obj, fc) if me.get('isArrow') else self.addr(obj, fc)
            s = '%s(%s)' % (cname, ', '.join([o] + self.call_args(fd, args, fc)))
        if self.func_info[cname]['returns_ref']:
            return '(*%s)' % s
        return s

    def e_CXXOperatorCallExpr(self, e, fc):
        c = self.callee_decl(e)
        if c.get('kind') != 'DeclRefExpr':
            raise Unsupported('operator call through %s' % c.get('kind'))
        r = c['referencedDecl']
        fd = self.ix.get(r['id'])
        args = e['inner'][1:]
        self.bind_lambdas(args)
        opname = r.get('name', '')
        if r['kind'] == 'CXXMethodDecl':
            obj = args[0]
            oty = T.strip_ref(self.ntype(obj, fc.fid))
            if oty[0] == 'n' and oty[1][0][0] == 'std':
                return self.std_member_call(oty, opname, obj, False, args[1:], e, fc)
            if oty[0] == 'p':
                return self.ptr_member_call(oty, opname, obj, args[1:], e, fc)
            if fd is None:
                raise Unsupported('operator %s of %s not in AST dump' % (opname, T.show(oty)))
            if opname == 'operator=' and (not has_body(fd) or fd.get('isImplicit')) :
                rec = self.ix.get(self.ix.parent.get(r['id']))
                if not has_body(fd) or self.all_trivial_members(rec):
                    return '(%s = %s)' % (self.expr(obj, fc), self.expr(args[1], fc))
            cname = self.request(r['id'])
            s = '%s(%s)' % (cname, ', '.join([self.addr(obj, fc)] + self.call_args(fd, args[1:], fc)))
            if self.func_info[cname]['returns_ref']:
                return '(*%s)' % s
            return s
        # free operator function
        q = self.callee_qual(r, fd)
        if fd is None or q.startswith('std::'):
            return self.std_call('std::' + opname if not q.startswith('std::') else q, e, args, fc, r)
        cname = self.request(r['id'])
        s = '%s(%s)' % (cname, ', '.join(self.call_args(fd, args, fc)))
        if self.func_info[cname]['returns_ref']:
            return '(*%s)' % s
        return s

    # ---- std model dispatch
    def std_member_call(self, oty, name, obj, arrow, args, e, fc):
        q = '::'.join(c[0] for c in oty[1])
        targs = oty[1][-1][1] or []
        o = self.expr(obj, fc)
        if arrow:
            o = '(*%s)' % o
        if q == 'std::array':
            n = targs[1][1]
            if name == 'operator[]' or name == 'at':
                return '%s.d[%s]' % (o, self.expr(args[0], fc))
            if name == 'size':
                return '%dUL' % n
            if name in ('data', 'begin', 'cbegin'):
                return '(%s.d)' % o
            if name in ('end', 'cend'):
                return '(%s.d + %d)' % (o, n)
            if name == 'front':
                return '%s.d[0]' % o
            if name == 'back':
                return '%s.d[%d]' % (o, n - 1)
            if name == 'operator=':
                return '(%s = %s)' % (o, self.expr(args[0], fc))
        if q == 'std::integral_constant' and (name.startswith('operator ') or name in ('operator()', 'value')):
            return '%d%s' % (targs[1][1], INT_SUFFIX.get(targs[0][1], '') if targs[0][0] == 'b' else '')
        if q == 'std::optional':
            if name in ('operator bool', 'has_value'):
                return '%s.has' % o
            if name in ('operator*', 'value'):
                return '%s.v' % o
            if name == 'operator=':
                a0 = self.skip_wrappers(args[0])
                at = T.strip_ref(self.ntype(args[0], fc.fid))
                cn = self.record_cname(oty)
                if at == oty:
                    return '(%s = %s)' % (o, self.expr(args[0], fc))
                return '(%s = (struct %s){1, %s})' % (o, cn, self.expr(args[0], fc))
        if q == 'std::pair':
            if name == 'operator=':
                return '(%s = %s)' % (o, self.expr(args[0], fc))
        if q == 'std::set':
            cn = self.record_cname(oty)
            self.need_record(oty, cn)
            if name == 'insert' and len(args) == 1:
                return '%s__insert(%s, %s)' % (cn, self.addr_of_str(o), self.expr(args[0], fc))
            if name in ('size', 'empty', 'clear'):
                return '%s__%s(%s)' % (cn, name, self.addr_of_str(o))
        if q == 'std::vector':
            cn = self.record_cname(oty)
            self.need_record(oty, cn)
            oa = self.addr_of_str(o)
            el = targs[0]
            if name in ('operator[]', 'at'):
                return '(*%s__at(%s, %s))' % (cn, oa, self.expr(args[0], fc))
            if name in ('front', 'back'):
                return '(*%s__%s(%s))' % (cn, name, oa)
            if name in ('size', 'empty', 'clear', 'begin', 'end', 'cbegin', 'cend', 'data', 'capacity', 'pop_back'):
                return '%s__%s(%s)' % (cn, name.lstrip('c') if name in ('cbegin', 'cend') else name, oa)
            if name in ('reserve', 'resize'):
                return '%s__%s(%s, %s)' % (cn, name, oa, ', '.join(self.expr(a, fc) for a in args))
            if name == 'emplace_back' and (len(args) != 1 or (T.strip_const(el)[0] == 'n' and T.strip_ref(self.ntype(args[0], fc.fid)) != T.strip_const(el) and T.strip_const(el)[1][0][0] != 'std')):
                # construct in place: new slot (zero-initialised), then the matching user constructor
                slot = '%s__emplace_slot(%s)' % (cn, oa)
                if len(args) == 0:
                    return slot
                elt = T.strip_const(el)
                if elt[0] != 'n' or elt[1][0][0] == 'std':
                    raise Unsupported('emplace_back with %d args into vector of %s' % (len(args), T.show(elt)))
                rec = self.find_record(elt[1])
                cands = []
                for c in walk(rec):
                    if c.get('kind') == 'CXXConstructorDecl' and has_body(c) and not self.is_pattern_fn(c['id']):
                        ps = [p for p in c['inner'] if p.get('kind') == 'ParmVarDecl']
                        if len(ps) == len(args):
                            ok = True
                            for p, a in zip(ps, args):
                                try:
                                    if self.unconst_deep(T.strip_ref(self.ntype(p, c['id']))) != self.unconst_deep(T.strip_ref(self.ntype(a, fc.fid))):
                                        ok = False
                                except Unsupported:
                                    ok = False
                            if ok:
                                cands.append(c)
                if len(cands) != 1:
                    raise Unsupported('emplace_back: %d matching constructors of %s for %d arguments' % (len(cands), T.show(elt), len(args)))
                ctor = cands[0]
                cargs = self.call_args(ctor, args, fc)
                cname = self.request(ctor['id'])
                return '%s(%s)' % (cname, ', '.join([slot] + cargs))
            if name == 'insert' and len(args) == 3:
                return '%s__insert_range(%s, %s)' % (cn, oa, ', '.join(self.expr(a, fc) for a in args))
            if name in ('push_back', 'emplace_back'):
                if len(args) != 1:
                    raise Unsupported('emplace_back with %d args' % len(args))
                a = args[0]
                if T.strip_const(el)[0] == 'p' and T.strip_ref(self.ntype(a, fc.fid)) != T.strip_const(el) and T.strip_ref(self.ntype(a, fc.fid)) == T.strip_const(T.strip_const(el)[1]):
                    # vector<reference_wrapper<X>>::emplace_back(X&)
                    t = self.new_temp(fc, el)
                    return '%s__push_back(%s, (%s = %s, &%s))' % (cn, oa, t, self.addr(a, fc), t)
                return '%s__push_back(%s, %s)' % (cn, oa, self.addr(a, fc))
            if name == 'operator=':
                return '(%s = %s)' % (o, self.expr(args[0], fc))
        raise Unsupported('std member %s::%s at %s:%s' % (q, name, e.get('_file'), e.get('_line')))

    def ptr_member_call(self, oty, name, obj, args, e, fc):
        """member functions of library types that are modelled as raw pointers (iterators, reference_wrapper)"""
        o = self.expr(obj, fc)
        if name in ('get', 'operator*') or name.startswith('operator ') :
            return '(*%s)' % o
        if name == 'operator->' or name == 'base':
            return o
        if name in ('operator+', 'operator-') and len(args) == 1:
            return '(%s %s %s)' % (o, name[8:], self.expr(args[0], fc))
        if name in ('operator++', 'operator--'):
            return '(%s%s)' % (name[8:], o) if len(args) == 0 else '(%s%s)' % (o, name[8:])
        if name in ('operator+=', 'operator-='):
            return '(%s %s %s)' % (o, name[8:], self.expr(args[0], fc))
        if name == 'operator[]':
            return '%s[%s]' % (o, self.expr(args[0], fc))
        raise Unsupported('pointer-modelled member %s at %s:%s' % (name, e.get('_file'), e.get('_line')))

    def std_call(self, q, e, args, fc, r):
        name = q.split('::')[-1]
        rty = None
        if name in ('move', 'forward', 'as_const', 'addressof', 'ref', 'cref'):
            if name in ('addressof', 'ref', 'cref'):
                return self.addr(args[0], fc)   # reference_wrapper is modelled as a pointer
            return self.expr(args[0], fc)
        if name in ('abs', 'labs', 'llabs', 'fabs'):
            t = T.strip_const(self.ntype(e, fc.fid))
            return '__verif_abs_%s(%s)' % (t[1].replace(' ', '_'), self.expr(args[0], fc))
        if name in ('min', 'max') and len(args) == 2:
            t = T.strip_ref(self.ntype(args[0], fc.fid))
            if t[0] != 'b':
                raise Unsupported('std::%s on non-scalar' % name)
            return '__verif_%s_%s(%s, %s)' % (name, t[1].replace(' ', '_'), self.expr(args[0], fc), self.expr(args[1], fc))
        if name in ('size', 'begin', 'end', 'cbegin', 'cend', 'data', 'empty'):
            a = args[0]
            aty = T.strip_ref(self.ntype(a, fc.fid))
            if aty[0] == 'n' and aty[1][0][0] == 'std':
                return self.std_member_call(aty, name, a, False, [], e, fc)
            if aty[0] == 'a' and name == 'size':
                return '%dUL' % aty[2]
            # user container with size()/begin()/end() members: not needed so far
            raise Unsupported('std::%s on %s' % (name, T.show(aty)))
        if name == 'distance':
            return '(%s - %s)' % (self.expr(args[1], fc), self.expr(args[0], fc))
        if name == 'make_pair':
            ty = T.strip_const(self.ntype(e, fc.fid))
            cn = self.record_cname(ty)
            self.need_record(ty, cn)
            return '((struct %s){%s, %s})' % (cn, self.expr(args[0], fc), self.expr(args[1], fc))
        if name in ('operator==', 'operator!=', 'operator<', 'operator-', 'operator+', 'operator<=', 'operator>', 'operator>='):
            # iterators modelled as pointers
            t0 = T.strip_ref(self.ntype(args[0], fc.fid))
            if t0[0] == 'p':
                return '(%s %s %s)' % (self.expr(args[0], fc), name[8:], self.expr(args[1], fc))
        if name == 'hardware_concurrency':
            return '__verif_hardware_concurrency()'
        if name == 'getenv':
            return '__verif_getenv(%s)' % self.expr(args[0], fc)
        if name in ('epsilon', 'max', 'min', 'lowest') and len(args) == 0:
            t = T.strip_const(self.ntype(e, fc.fid))
            pre = {'float': 'FLT', 'double': 'DBL', 'long double': 'LDBL', 'int': 'INT', 'long': 'LONG', 'unsigned long': 'ULONG', 'unsigned int': 'UINT'}.get(t[1])
            if pre and (name != 'epsilon' or pre in ('FLT', 'DBL', 'LDBL')):
                if name == 'lowest':
                    return '(-__verif_%s_MAX)' % pre if pre in ('FLT', 'DBL', 'LDBL') else '__verif_%s_MIN' % pre
                return '__verif_%s_%s' % (pre, {'epsilon': 'EPSILON', 'max': 'MAX', 'min': 'MIN'}[name])
        if name in ('Sqrt', 'sqrtf') or (name == 'sqrt' and self.cfg.get('sqrt_uninterpreted')):
            t = T.strip_const(self.ntype(e, fc.fid))
            return '__verif_sqrt_%s(%s)' % (t[1], self.expr(args[0], fc))
        if name in ('memset', 'memcpy', 'sqrt', 'floor', 'ceil', 'pow', 'log2', 'exp', 'log'):
            return '%s(%s)' % ({'memset': '__verif_memset', 'memcpy': '__verif_memcpy'}.get(name, name), ', '.join(self.expr(a, fc) for a in args))
        if name in ('sort', 'lower_bound', 'upper_bound', 'fill', 'copy'):
            return self.std_algo(name, e, args, fc)
        raise Unsupported('std function %s at %s:%s' % (q, e.get('_file'), e.get('_line')))

    def std_algo(self, name, e, args, fc):
        """std::sort / lower_bound / upper_bound on pointer-modelled iterators -> model macros of stl_model.h"""
        t0 = T.strip_ref(self.ntype(args[0], fc.fid))
        if t0[0] != 'p':
            raise Unsupported('std::%s on non-pointer iterators' % name)
        el = self.unconst(t0[1])
        elc = self.ctype(el)
        first = self.expr(args[0], fc)
        last = self.expr(args[1], fc)
        self.nadapt = getattr(self, 'nadapt', 0) + 1
        ad = '__verif_cmp_adapter_%d' % self.nadapt
        cmp = args[-1]
        c0 = self.skip_wrappers(cmp)
        while c0.get('kind') == 'ImplicitCastExpr':
            c0 = c0['inner'][0]
        if name == 'sort' and c0.get('kind') == 'LambdaExpr':
            self.bind_lambdas([cmp])
            recid = c0['inner'][0]['id']
            ct = self.new_temp(fc, ('lam', '', recid))
            closexpr = self.e_LambdaExpr(c0, fc)
            op = None
            for x in walk(c0['inner'][0]):
                if x.get('kind') == 'CXXMethodDecl' and x.get('name') == 'operator()' and has_body(x) and not self.is_pattern_fn(x['id']):
                    ps = [c for c in x['inner'] if c.get('kind') == 'ParmVarDecl']
                    if len(ps) == 2 and all(self.ctype(self.unconst(T.strip_ref(self.ntype(p, x['id'])))) == elc for p in ps):
                        op = x
            if op is None:
                raise Unsupported('std::sort: no matching instantiated comparator call operator')
            cn = self.request(op['id'])
            ps = [c for c in op['inner'] if c.get('kind') == 'ParmVarDecl']
            pa = ['(%s *)a' % elc if T.is_ref(self.ntype(ps[0], op['id'])) else '(*a)', '(%s *)b' % elc if T.is_ref(self.ntype(ps[1], op['id'])) else '(*b)']
            closc = 'struct ' + self.need_closure(recid)
            self.adapters.append('static inline _Bool %s(const void *clos, const %s *a, const %s *b) { return %s((const %s *)clos, %s, %s); }' % (ad, elc, elc, cn, closc, pa[0], pa[1]))
            return 'STD_SORT(%s, %s, %s, %s, (%s = %s, &%s))' % (elc, first, last, ad, ct, closexpr, ct)
        if name == 'sort':
            if c0.get('kind') != 'DeclRefExpr' or c0['referencedDecl']['kind'] not in FUNC_KINDS:
                raise Unsupported('std::sort comparator is not a plain function')
            fd = self.ix.get(c0['referencedDecl']['id'])
            cn = self.request(fd['id'])
            ps = [c for c in fd['inner'] if c.get('kind') == 'ParmVarDecl']
            a = ['a' if T.is_ref(self.ntype(ps[0], fd['id'])) else '(*a)', 'b' if T.is_ref(self.ntype(ps[1], fd['id'])) else '(*b)']
            self.adapters.append('static inline _Bool %s(const void *clos, const %s *a, const %s *b) { (void)clos; return %s(%s, %s); }' % (ad, elc, elc, cn, a[0], a[1]))
            return 'STD_SORT(%s, %s, %s, %s, 0)' % (elc, first, last, ad)
        # lower_bound / upper_bound (first, last, value, comp)
        val = args[2]
        vt = self.unconst(T.strip_ref(self.ntype(val, fc.fid)))
        vtc = self.ctype(vt)
        valp = self.addr(val, fc)
        if c0.get('kind') != 'LambdaExpr':
            raise Unsupported('std::%s comparator is not a lambda' % name)
        self.bind_lambdas([cmp])
        recid = c0['inner'][0]['id']
        clos_t = ('lam', '', recid)
        ct = self.new_temp(fc, clos_t)
        closexpr = self.e_LambdaExpr(c0, fc)
        # instantiated call operator with two parameters
        ops = []
        for x in walk(c0['inner'][0]):
            if x.get('kind') == 'CXXMethodDecl' and x.get('name') == 'operator()' and has_body(x) and not self.is_pattern_fn(x['id']):
                ops.append(x)
        want = (elc, vtc) if name == 'lower_bound' else (vtc, elc)
        op = None
        for x in ops:
            ps = [c for c in x['inner'] if c.get('kind') == 'ParmVarDecl']
            if len(ps) == 2 and tuple(self.ctype(self.unconst(T.strip_ref(self.ntype(p, x['id'])))) for p in ps) == want:
                op = x
        if op is None:
            raise Unsupported('std::%s: no matching instantiated comparator call operator' % name)
        cn = self.request(op['id'])
        ps = [c for c in op['inner'] if c.get('kind') == 'ParmVarDecl']
        pa = ['a' if T.is_ref(self.ntype(ps[0], op['id'])) else '(*a)', 'b' if T.is_ref(self.ntype(ps[1], op['id'])) else '(*b)']
        closc = 'struct ' + self.need_closure(recid)
        if name == 'lower_bound':
            self.adapters.append('static inline _Bool %s(const void *clos, const %s *a, const %s *b) { return %s((const %s *)clos, %s, %s); }' % (ad, elc, vtc, cn, closc, pa[0], pa[1]))
            return 'STD_LOWER_BOUND(%s, %s, %s, %s, %s, (%s = %s, &%s))' % (elc, first, last, valp, ad, ct, closexpr, ct)
        self.adapters.append('static inline _Bool %s(const void *clos, const %s *a, const %s *b) { return %s((const %s *)clos, %s, %s); }' % (ad, vtc, elc, cn, closc, pa[0], pa[1]))
        return 'STD_UPPER_BOUND(%s, %s, %s, %s, %s, (%s = %s, &%s))' % (elc, first, last, valp, ad, ct, closexpr, ct)

    def e_LambdaExpr(self, e, fc):
        self.closure_table()
        recid = e['inner'][0]['id']
        if recid not in self.closure_by_id:
            raise Unsupported('lambda not in closure table at %s:%s' % (e.get('_file'), e.get('_line')))
        m = re.match(r'\(lambda at (.*)\)', e['type']['qualType'])
        self.cur_lam_env[m.group(1)] = recid
        cn = self.need_closure(recid)
        items = []
        for name, mode, ty, init, vid in self.closure_fields(recid):
            if mode == 'this':
                items.append('.%s = %s' % (name, self.e_CXXThisExpr(init, fc)))
            elif mode == 'ref':
                items.append('.%s = %s' % (name, self.addr(init, fc)))
            else:
                items.append('.%s = %s' % (name, self.expr(init, fc)))
        return '((struct %s){%s})' % (cn, ', '.join(items) or '0')

    def e_CXXConstructExpr(self, e, fc):
        r = self.construct(e, fc, None)
        if r is None:
            t = self.new_temp(fc, self.ntype(e, fc.fid))
            return t
        if r.startswith('@stmt:'):
            raise Unsupported('constructor call in expression position')
        return r

    e_CXXTemporaryObjectExpr = e_CXXConstructExpr

    # ------------------------------------------------------------------ output
    def render(self, spec_include, header=''):
        out = []
        out.append('/* generated by cxx2c from clang\'s AST of %s -- do not edit */' % self.cfg.get('driver'))
        out.append(header)
        out.append('#define SPEC_PART_MODEL\n#include "%s"\n#undef SPEC_PART_MODEL' % spec_include)
        for cn in self.type_order:
            out.append(self.type_defs[cn])
        out.append('')
        for cn, p in self.func_protos.items():
            out.append(p + ';')
        out.append('#define SPEC_PART_CONTRACTS\n#include "%s"\n#undef SPEC_PART_CONTRACTS' % spec_include)
        for m in self.loop_macros:
            out.append('#ifndef %s\n#define %s\n#endif' % (m['macro'], m['macro']))
        for a in self.adapters:
            out.append(a)
        for cn, b in self.func_bodies.items():
            out.append(b)
            out.append('')
        out.append('#define SPEC_PART_HARNESS\n#include "%s"\n#undef SPEC_PART_HARNESS' % spec_include)
        return '\n'.join(out) + '\n'

    def find_functions(self, pattern):
        """ids of instantiated functions (with bodies) whose qualified name (without template args) matches regex"""
        rx = re.compile(pattern)
        out = []
        for nid, n in self.ix.nodes.items():
            if n['kind'] in FUNC_KINDS and has_body(n) and not self.in_template_pattern(nid):
                try:
                    q = self.qual_name(nid, with_args=False)
                except (Unsupported, T.TypeErr):
                    continue
                if rx.fullmatch(q):
                    out.append(nid)
        return out
