#!/usr/bin/env python3
"""Debug helper: pretty-print parts of a clang JSON AST dump. usage: astshow.py file.json name [name...]"""
import json,sys
def load_docs(path):
    s=open(path).read(); dec=json.JSONDecoder(); i=0; docs=[]
    while i<len(s):
        while i<len(s) and s[i] in ' \n\r\t': i+=1
        if i>=len(s): break
        o,i=dec.raw_decode(s,i); docs.append(o)
    return docs
def show(n,ind=0,out=sys.stdout):
    k=n.get('kind')
    if k is None: print(' '*ind+'<<null>>',file=out); return
    extra=[]
    for key in ('id','name','opcode','value','castKind','valueCategory','isPostfix','isArrow','init','constexpr','storageClass','isImplicit','isUsed','isReferenced'):
        if key in n: extra.append(f"{key}={n[key]}")
    if 'type' in n: extra.append('T='+n['type'].get('qualType','')+ (' ~ '+n['type']['desugaredQualType'] if 'desugaredQualType' in n['type'] else ''))
    if 'referencedDecl' in n: r=n['referencedDecl']; extra.append(f"ref={r['kind']}:{r.get('name')}:{r['id']}:{r.get('type',{}).get('qualType')}")
    if 'referencedMemberDecl' in n: extra.append('refmem='+n['referencedMemberDecl'])
    if 'loc' in n and 'line' in n['loc']: extra.append('L'+str(n['loc']['line']))
    print(' '*ind+k+' '+' '.join(extra),file=out)
    for c in n.get('inner',[]): show(c,ind+1,out)
def walk(n):
    yield n
    for c in n.get('inner',[]) or []:
        if isinstance(c,dict): yield from walk(c)
if __name__=='__main__':
    docs=load_docs(sys.argv[1]); names=set(sys.argv[2:])
    for d in docs:
        for n in walk(d):
            if n.get('name') in names and n.get('kind') in('CXXMethodDecl','FunctionDecl','CXXConstructorDecl') and any(c.get('kind')=='CompoundStmt' for c in n.get('inner',[])):
                show(n)
