#!/bin/bash
# validate MANIFEST.json and every evidence file against the schemas
python3-vt - <<'PY'
import json, jsonschema, glob
ms=json.load(open('/root/.vp/MANIFEST.schema.json')); es=json.load(open('/root/.vp/EVIDENCE.schema.json'))
m=json.load(open('/verif/MANIFEST.json')); jsonschema.validate(m, ms); print('MANIFEST ok, claims', len(m['checks']))
for c in m['checks']:
    f='/verif/'+c['evidence_file']
    try:
        e=json.load(open(f)); jsonschema.validate(e, es)
        cov=e['coverage']
        print(c['property_id'], e['tier'], e['level'], 'obl', cov['obligations'], 'disch', cov['discharged'], 'viol', e['violations'], 'infra', len(cov['infra_problems']), 'eval', cov['evaluations'], 'wall', e['wall_s'], 'LEVEL-MISMATCH' if e['level']!=c['level_claimed']['category'] else '')
    except Exception as ex:
        print(c['property_id'], 'INVALID', str(ex)[:200])
PY
