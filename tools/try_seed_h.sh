#!/bin/bash
# usage: tools/try_seed_h.sh <patch.diff> <unit> <harness-glob> [K=V...]
P=$1; U=$2; H=$3; shift 3
D=$(mktemp -d /tmp/mut/seedXXXX); cp -r /repo/src $D/src
( cd $D && patch -p1 -s < $P ) || { echo "PATCH FAILED"; rm -rf $D; exit 3; }
VERIF_REPO=$D timeout 1800 python3 /verif/verif.py harness $U "$H" "$@" 2>&1 | grep "^==\|FAILED" | cut -c1-260
rm -rf $D
