#!/bin/bash
# usage: tools/try_seed.sh <patch.diff> <PROP> [<PROP>...]   -- runs the quick checks of the given properties on a scratch copy of /repo with the patch applied
set -u
P=$1; shift
D=$(mktemp -d /tmp/mut/seedXXXX)
mkdir -p $D && cp -r /repo/src $D/src
( cd $D && patch -p1 -s < $P ) || { echo "PATCH FAILED"; rm -rf $D; exit 3; }
for prop in "$@"; do
  echo "--- $prop on $P"
  VERIF_REPO=$D python3 /verif/verif.py check $prop --tier quick 2>&1 | grep -v "^/verif" | cut -c1-330 | tail -6
done
( cd /verif && git checkout -q -- evidence 2>/dev/null )
rm -rf $D
