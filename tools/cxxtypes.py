"""C++ type-string parser used by cxx2c (clang prints types as strings in its JSON AST).

A parsed type is a tuple tree:
  ('b', name)                 builtin (C spelling)
  ('n', [(ident, [args]), ...])  qualified name with optional template args per component
  ('p', T)  pointer   ('r', T) lvalue ref   ('rr', T) rvalue ref
  ('c', T)  const T   ('a', T, N) array
  ('v', int)                  integral template argument
  ('f', ret, [params])        function type
  ('lam', 'file:line:col')    closure type
"""
import re

class TypeErr(Exception):
    pass

BUILTIN_WORDS = {'unsigned', 'signed', 'long', 'int', 'short', 'char', 'bool', 'double', 'float', 'void',
                 '_Bool', '__int128', 'wchar_t', 'char16_t', 'char32_t'}
TOK = re.compile(r'''\s*(?:
   (?P<lam>\(lambda\ at\ [^)]*\)) |
   (?P<anon>\((?:anonymous|unnamed)\ (?:struct|class|union|namespace)[^)]*\)) |
   (?P<id>[A-Za-z_~][A-Za-z_0-9]*) |
   (?P<num>-?[0-9]+)(?P<suf>[uUlL]*) |
   (?P<chr>'[^']*') |
   (?P<op>::|&&|\.\.\.|[<>,*&()\[\]])
 )''', re.X)


def tokenize(s):
    out = []
    i = 0
    while i < len(s):
        if s[i].isspace():
            i += 1
            continue
        m = TOK.match(s, i)
        if not m:
            raise TypeErr('cannot tokenize type %r at %d' % (s, i))
        if m.group('lam'):
            out.append(('lam', m.group('lam')))
        elif m.group('anon'):
            out.append(('id', m.group('anon')))
        elif m.group('id'):
            out.append(('id', m.group('id')))
        elif m.group('num'):
            out.append(('num', int(m.group('num'))))
        elif m.group('chr'):
            out.append(('num', ord(m.group('chr')[1])))
        else:
            out.append(('op', m.group('op')))
        i = m.end()
    return out


def norm_builtin(words):
    w = [x for x in words if x not in ('signed', 'int')] if any(x in ('long', 'short', 'unsigned', 'char') for x in words) else list(words)
    if words == ['signed', 'char'] or sorted(words) == ['char', 'signed']:
        return 'signed char'
    uns = 'unsigned' in w
    w = [x for x in w if x != 'unsigned']
    base = ' '.join(w) if w else 'int'
    if base == 'bool':
        base = '_Bool'
    if base == '':
        base = 'int'
    return ('unsigned ' + base) if uns else base


class P:
    def __init__(self, s):
        self.s = s
        self.t = tokenize(s)
        self.i = 0

    def peek(self, k=0):
        return self.t[self.i + k] if self.i + k < len(self.t) else (None, None)

    def eat(self, kind=None, val=None):
        k, v = self.peek()
        if (kind and k != kind) or (val is not None and v != val):
            raise TypeErr('parse error in type %r at token %d (%r), wanted %r' % (self.s, self.i, v, val))
        self.i += 1
        return v

    def parse_type(self):
        # leading cv + core
        const = False
        while self.peek() in (('id', 'const'), ('id', 'volatile'), ('id', 'typename'), ('id', 'struct'), ('id', 'class'), ('id', 'enum'), ('id', 'union')):
            if self.peek()[1] == 'const':
                const = True
            self.i += 1
        k, v = self.peek()
        if k == 'lam':
            self.i += 1
            m = re.match(r'\(lambda at (.*)\)', v)
            core = ('lam', m.group(1))
        elif k == 'id' and v in BUILTIN_WORDS:
            words = []
            while self.peek()[0] == 'id' and (self.peek()[1] in BUILTIN_WORDS or self.peek()[1] in ('const',)):
                if self.peek()[1] == 'const':
                    const = True
                else:
                    words.append(self.peek()[1])
                self.i += 1
            core = ('b', norm_builtin(words))
        elif k == 'id' or (k == 'op' and v == '::'):
            core = self.parse_name()
        else:
            raise TypeErr('parse error in type %r at token %d (%r)' % (self.s, self.i, v))
        # trailing const directly after core
        while self.peek() in (('id', 'const'), ('id', 'volatile')):
            if self.peek()[1] == 'const':
                const = True
            self.i += 1
        t = ('c', core) if const else core
        return self.parse_suffix(t)

    def parse_suffix(self, t):
        while True:
            k, v = self.peek()
            if k == 'op' and v == '*':
                self.i += 1
                t = ('p', t)
                while self.peek() in (('id', 'const'), ('id', 'volatile'), ('id', '__restrict')):
                    if self.peek()[1] == 'const':
                        t = ('c', t)
                    self.i += 1
            elif k == 'op' and v == '&':
                self.i += 1
                t = ('r', t)
            elif k == 'op' and v == '&&':
                self.i += 1
                t = ('rr', t)
            elif k == 'op' and v == '[':
                self.i += 1
                if self.peek()[0] == 'num':
                    n = self.eat('num')
                else:
                    n = None
                self.eat('op', ']')
                t = ('a', t, n)
            elif k == 'op' and v == '(':
                # function type  ret (params) [const] [noexcept]   or   ret (*)(params)
                if self.peek(1) == ('op', '*') or self.peek(1) == ('op', '&'):
                    # pointer/reference to function/array
                    self.i += 2
                    while self.peek()[0] == 'id' and self.peek()[1] == 'const':
                        self.i += 1
                    self.eat('op', ')')
                    inner = self.parse_suffix(t)
                    return ('p', inner)
                self.i += 1
                params = []
                if self.peek() != ('op', ')'):
                    while True:
                        if self.peek() == ('op', '...'):
                            self.i += 1
                        else:
                            params.append(self.parse_type())
                        if self.peek() == ('op', ','):
                            self.i += 1
                            continue
                        break
                self.eat('op', ')')
                while self.peek()[0] == 'id' and self.peek()[1] in ('const', 'noexcept', 'volatile', '__attribute__'):
                    w = self.peek()[1]
                    self.i += 1
                    if self.peek() == ('op', '('):
                        depth = 0
                        while True:
                            k2, v2 = self.peek()
                            self.i += 1
                            if v2 == '(':
                                depth += 1
                            elif v2 == ')':
                                depth -= 1
                                if depth == 0:
                                    break
                t = ('f', t, params)
            else:
                return t

    def parse_name(self):
        comps = []
        if self.peek() == ('op', '::'):
            self.i += 1
        while True:
            k, v = self.peek()
            if k == 'lam':
                self.i += 1
                m = re.match(r'\(lambda at (.*)\)', v)
                comps.append(('(lambda)', [('lam', m.group(1))]))
            else:
                name = self.eat('id')
                if name == 'template':
                    name = self.eat('id')
                if name == 'operator':
                    # operator names do not occur in types
                    raise TypeErr('operator in type ' + self.s)
                args = None
                if self.peek() == ('op', '<'):
                    self.i += 1
                    args = []
                    if self.peek() != ('op', '>'):
                        while True:
                            args.append(self.parse_targ())
                            if self.peek() == ('op', ','):
                                self.i += 1
                                continue
                            break
                    self.eat('op', '>')
                comps.append((name, args))
            if self.peek() == ('op', '::'):
                self.i += 1
                continue
            break
        return ('n', comps)

    def parse_targ(self):
        k, v = self.peek()
        if k == 'num':
            self.i += 1
            return ('v', v)
        if k == 'id' and v in ('true', 'false'):
            self.i += 1
            return ('v', 1 if v == 'true' else 0)
        if k == 'op' and v == '(':
            # parenthesised cast e.g. (long)3
            depth = 0
            j = self.i
            raise TypeErr('expression template argument in ' + self.s)
        return self.parse_type()


def parse(s):
    p = P(s)
    t = p.parse_type()
    if p.i != len(p.t):
        raise TypeErr('trailing tokens in type %r at %d' % (s, p.i))
    return t


def show(t):
    k = t[0]
    if k == 'b':
        return t[1]
    if k == 'v':
        return str(t[1])
    if k == 'lam':
        return '(lambda at %s)' % t[1]
    if k == 'n':
        return '::'.join(n + ('<' + ','.join(show(a) for a in args) + '>' if args is not None else '') for n, args in t[1])
    if k == 'p':
        return show(t[1]) + '*'
    if k == 'r':
        return show(t[1]) + '&'
    if k == 'rr':
        return show(t[1]) + '&&'
    if k == 'c':
        return 'const ' + show(t[1])
    if k == 'a':
        return show(t[1]) + '[%s]' % t[2]
    if k == 'f':
        return show(t[1]) + '(' + ','.join(show(x) for x in t[2]) + ')'
    raise TypeErr('show ' + repr(t))


def strip_const(t):
    while t[0] == 'c':
        t = t[1]
    return t


def strip_ref(t):
    t = strip_const(t)
    if t[0] in ('r', 'rr'):
        return strip_const(t[1])
    return t


def is_ref(t):
    return strip_const(t)[0] in ('r', 'rr')
