#!/bin/bash
# usage: tools/run_all.sh <tier> [ids...]   -- run the registered checks one after the other, log to /tmp/runall_<tier>.log
T=${1:-quick}; shift
IDS=${@:-C16 C18 C14 C11 C10 C20 C17 C12 C01 C02 C08 C09 C06 C07 C13 C15}
for p in $IDS; do
  s=$(date +%s)
  python3 /verif/verif.py check $p --tier $T > /tmp/chk_${p}_$T.log 2>&1; rc=$?
  echo "$p rc=$rc $(( $(date +%s) - s ))s :: $(tail -1 /tmp/chk_${p}_$T.log | cut -c1-200)"
done
