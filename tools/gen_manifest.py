#!/usr/bin/env python3
"""Regenerate /verif/MANIFEST.json from props.json (claimed properties) and the fixed texts below."""
import json, os
ROOT = os.path.dirname(os.path.dirname(os.path.abspath(__file__)))
props = json.load(open(os.path.join(ROOT, 'props.json')))

TECH_CONTRACT = 'CBMC function/loop contracts (goto-instrument --dfcc, enforced per function, callers checked against callee contracts) on C extracted mechanically on every run from the clang AST of the real template instantiations'
TECH_BOUNDED = 'BOUNDED stand-in: CBMC --unwind N --unwinding-assertions on the same mechanically extracted C (real bodies), sizes stated per harness; labelled bounded, never counted as proved'

TEXT = {
 'C01': ('model_checking', 'K1/K5/K6b (P2M, L2P, P2PInner wrappers) are proved by function+loop contracts for every group size; every other link of the exactly-once chain (the list-driven wrappers, the group-pairing loops of the passes, the whole sequential executor with an exactly additive counting kernel, the list builders) is a bounded CBMC run of the real extracted code on small symbolic or exhaustively enumerated shapes. A bounded result is the right (honest) level here: the executor loops carry no loop contracts yet.', TECH_CONTRACT + ' for three wrappers; ' + TECH_BOUNDED + ' for the rest'),
 'C02': ('model_checking', 'every kernel call made by the real wrapper / pass / executor code is checked by a kernel model that compares each argument with the tree geometry (levels, octant and offset codes, identity of header / index / data / result arrays, counts, no empty call): unbounded for P2M/L2P/P2PInner, bounded otherwise', TECH_CONTRACT + ' for three wrappers; ' + TECH_BOUNDED + ' for the rest'),
 'C06': ('model_checking', 'bounded execution of the real TbfTree constructor on enumerated particle sets with a complete structural and content check of the resulting groups; zero-fill of fresh blocks by contract (unbounded)', TECH_BOUNDED + '; resetBlocksFromSizes zero-fill by contract'),
 'C07': ('model_checking', 'bounded execution of the real constructor and rebuild on enumerated particle sets / block sizes / grouping modes with a complete check of ordering, headers, ancestor closure, leaf/particle group correspondence and block size', TECH_BOUNDED),
 'C08': ('model_checking', 'the bounded executor / pass runs quantify over every partition of every level into groups and demand identical exact results; the three unbounded wrapper proofs hold for any group size', TECH_CONTRACT + ' for three wrappers; ' + TECH_BOUNDED + ' for the rest'),
 'C09': ('model_checking', 'bounded execution of the real sequential target/source executor on enumerated pairs of independent source / target trees with an exactly additive counting kernel; one-sided wrapper on symbolic groups', TECH_BOUNDED),
 'C10': ('proof', 'shift = +-box width exactly where the neighbour leaves the box, and the repetition interval / count arithmetic, proved as function contracts for all inputs (Dim 1-4, extra levels -1..12); periodic index algebra proved in unit morton; wrapped list builders bounded', TECH_CONTRACT + '; wrapped list builders: ' + TECH_BOUNDED),
 'C11': ('proof', 'function contracts on the Morton index algebra enforced by CBMC for all inputs up to the level whose indices fit 63 bits; lemmas (bijection, parent containment, child code, position-code round trips) proved over the contracts; list builders (per cell and per group) by bounded stand-in for Dim 1-2', TECH_CONTRACT + '; list builders: ' + TECH_BOUNDED),
 'C12': ('proof', 'flag dispatch of execute() proved by contract for every flag word with the passes as recording contracts; staged == full, near-field only writes no expansion, nothing above the upper level: bounded executor runs', TECH_CONTRACT + '; executor runs: ' + TECH_BOUNDED),
 'C13': ('model_checking', 'bounded execution of the real constructor + in-place move + real rebuild() with complete structural / identity / data / results / reset checks', TECH_BOUNDED),
 'C14': ('proof', 'layout arithmetic, trailer placement, raw-memory re-derivation and accessor addresses of TbfMemoryBlock proved for the two layouts the library uses, all item counts up to 2^NMAXLOG; reuse-after-shrink then raw view: bounded stand-in', TECH_CONTRACT + '; buffer reuse path: ' + TECH_BOUNDED),
 'C15': ('proof', 'CBMC bounds / pointer / signed-overflow / shift / division obligations and the library\'s own assert()s (units are extracted without NDEBUG) for every function under contract (all inputs satisfying the precondition) and in every bounded run (for the stated bounds)', TECH_CONTRACT + ' and ' + TECH_BOUNDED + ' (union of all units)'),
 'C16': ('proof', 'group-level lookups: binary search proved by loop contract for any group size up to 2^NMAXLOG, found-iff-present for an arbitrary witness position; sortedness consumed as instances (forall-elimination) through the accessor contract', TECH_CONTRACT),
 'C17': ('model_checking', 'per-leaf body of getAllParticlesData / getAllParticlesRhs (real extracted lambda): every entry [originalIndex][k] receives value k of that particle; bounded to <= 3 particles per leaf / 4 in the tree with symbolic indices and values', TECH_BOUNDED),
 'C18': ('proof', 'each counter wrapper adds exactly its documented amount to its own counter only and forwards its arguments unchanged exactly once; Reduce is field-wise addition, commutative and associative; reset zeroes: loop-free code, complete contract proofs', TECH_CONTRACT),
 'C20': ('proof', 'MutualParticles / NonMutualParticles function contracts, IEEE bit-precise with cvc5 --fpa and an uninterpreted deterministic sqrt: each accumulator receives exactly the elementary update; action = -reaction; pair loops (full mutual, remote, in-leaf) by bounded stand-in with concrete counts', TECH_CONTRACT + ' (SMT floating-point back end); pair loops: ' + TECH_BOUNDED),
}
NOTE = 'trusted: clang-14 AST, tools/cxx2c.py extraction (whitelist, aborts on unknown constructs), contracts/stl_model.h, CBMC 6.11; assumed contracts and bounds are listed in the evidence file (assumptions, bounded_stand_ins, not_decided)'
NA = [
 ('C03', 'schedules of task-based executors: CBMC 6.11 has no model of OpenMP/Specx/StarPU tasking and function contracts cannot quantify over interleavings or lifetimes of captured frames; the technique family (contracts on sequential code) cannot express the property. The two defects named in the property text were confirmed by reading only (DESIGN.md section 6).'),
 ('C04', 'numerical accuracy of the rotation kernel against the direct sum: floating-point truncation-error bounds over spherical-harmonic recurrences are out of reach of CBMC contracts (non-linear real analysis; every back end times out on multiplication chains). Only the argument geometry the kernel relies on (C02) is decided.'),
 ('C05', 'numerical accuracy of the uniform (Lagrange/FFT) kernel: same reason as C04, plus FFTW calls outside the extractable subset.'),
 ('C19', 'compilability of every documented template configuration is a property of the C++ compiler front end over a cross product of translation units, not of a function contract; a compile matrix would be a different technique. The genuine defect found while instantiating Dim 1-2 trees for units tree/treebuild (constructor hard-wired the 3-D default ordering) was repaired (fix commit cf95102, see known_findings.txt).'),
]

checks = []
for pid, pc in props.items():
    cat, text, tech = TEXT[pid]
    assert cat == pc.get('level'), (pid, cat, pc.get('level'))
    checks.append({
        'property_id': pid,
        'quick_cmd': 'python3 verif.py check %s --tier quick' % pid,
        'thorough_cmd': 'python3 verif.py check %s --tier thorough' % pid,
        'evidence_file': 'evidence/%s.json' % pid,
        'engine': 'cxx2c+cbmc',
        'replay_cmd_template': 'cat {path}',
        'level_claimed': {'category': cat, 'text': text, 'design_ref': 'DESIGN.md section 4 (%s) and section 0b' % pid},
        'level_note': NOTE,
        'technique': tech,
    })
m = {
 'version': 1,
 'setup_cmd': 'true',
 'hooks': {'guard': 'TBFMM_VERIF', 'enable': 'no hooks: the checks read /repo/src through clang\'s AST; nothing in /repo is instrumented',
           'baseline_off_cmd': 'cmake --build /repo/_build && ctest --test-dir /repo/_build -j8 --timeout 900', 'source_commits': [], 'add_only': True},
 'engines': [{'name': 'cxx2c+cbmc', 'path': 'verif.py', 'serves_properties': list(props.keys()),
              'kind_free_text': 'clang JSON AST -> C extraction (tools/cxx2c.py) on every run, CBMC code contracts enforced per function with goto-instrument --dfcc, SAT (cadical) / cvc5 --fpa back ends; bounded stand-ins with --unwind N --unwinding-assertions'}],
 'checks': checks,
 'not_applicable': [{'property_id': a, 'reason': b} for a, b in NA],
 'notes': 'exit codes: 0 held, 1 violation (VIOLATION line), 2 undecided (timeout, extraction failure, vacuous harness, unwinding bound too small) - never a violation. Genuine defects repaired in /repo are recorded in known_findings.txt (fixed: entries).',
}
json.dump(m, open(os.path.join(ROOT, 'MANIFEST.json'), 'w'), indent=1)
print('claimed:', ' '.join(props.keys()))
