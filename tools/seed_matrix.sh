#!/bin/bash
# usage: tools/seed_matrix.sh [seed-dir-names...]  -- run the registered quick check of each seeded change's property on a
# scratch copy of /repo/src with the patch applied (VERIF_REPO), one after the other; prints one line per seed.
cd /verif
S=${@:-$(ls seeded)}
for s in $S; do
  P=$(python3 -c "import json;print(json.load(open('seeded/$s/meta.json'))['property'])")
  D=$(mktemp -d /tmp/seedrun.XXXX); cp -r /repo/src $D/src
  ( cd $D && patch -p1 -s < /verif/seeded/$s/patch.diff ) || { echo "$s $P PATCH-FAILED"; rm -rf $D; continue; }
  t0=$(date +%s)
  VERIF_REPO=$D VERIF_EVIDENCE_DIR=/tmp/seed_evidence python3 verif.py check $P --tier quick > /tmp/seed_$s.log 2>&1; rc=$?
  echo "$s $P rc=$rc $(( $(date +%s) - t0 ))s $(grep -c '^VIOLATION' /tmp/seed_$s.log) violations :: $(grep '^# failed obligation' /tmp/seed_$s.log | head -1 | cut -c1-230)"
  rm -rf $D /verif/build/_scratch/$(echo $D | sed "s/[^A-Za-z0-9_]\+/_/g")
done
