// replay_util.hpp - argument handling shared by the native replay programs.
// usage: replay.bin <harness> name=value ...   (values as printed by CBMC, e.g. 4l, -3, [1,2,3], {"d":[..]})
#pragma once
#include <string>
#include <map>
#include <vector>
#include <cstdlib>
#include <cstdio>
#include <cstring>
struct ReplayArgs {
    std::string harness;
    std::map<std::string, std::string> kv;
    ReplayArgs(int argc, char** argv){
        if(argc > 1) harness = argv[1];
        for(int i = 2 ; i < argc ; ++i){
            std::string a = argv[i];
            auto p = a.find('=');
            if(p != std::string::npos) kv[a.substr(0,p)] = a.substr(p+1);
        }
    }
    bool has(const std::string& k) const { return kv.count(k); }
    // all integers appearing in the value text, in order (handles 4l, [1, 2], {"d": ["1","2"]}, 1.5 is not supported)
    std::vector<long> ints(const std::string& k) const {
        std::vector<long> out;
        auto it = kv.find(k);
        if(it == kv.end()) return out;
        const std::string& s = it->second;
        size_t i = 0;
        while(i < s.size()){
            if((s[i] == '-' && i+1 < s.size() && isdigit(s[i+1])) || isdigit(s[i])){
                char* e = nullptr;
                long v = strtol(s.c_str()+i, &e, 10);
                out.push_back(v);
                i = e - s.c_str();
                while(i < s.size() && (s[i]=='l'||s[i]=='u'||s[i]=='L'||s[i]=='U')) ++i;
            } else if(isalpha(s[i]) || s[i]=='_'){
                while(i < s.size() && (isalnum(s[i]) || s[i]=='_')) ++i; // skip member names
            } else ++i;
        }
        return out;
    }
    long i(const std::string& k, long dflt = 0) const { auto v = ints(k); return v.empty() ? dflt : v[0]; }
};
inline void reproduced(const char* what){ printf("REPRODUCED %s\n", what); }
inline void not_reproduced(const char* what){ printf("NOT-REPRODUCED %s\n", what); }
