// Native replay for the tree unit: builds a real TbfTree from a few particles and checks the bulk export
// functions against the property statement (entry i == values / results of the particle inserted at position i).
#include "tbfglobal.hpp"
#include "spacial/tbfmortonspaceindex.hpp"
#include "spacial/tbfspacialconfiguration.hpp"
#include "core/tbftree.hpp"
#include "replay_util.hpp"
#include <vector>
#include <array>
int main(int argc, char** argv){
    ReplayArgs a(argc, argv);
    constexpr long Dim = 3, NbData = 4, NbRhs = 2;
    using Tree = TbfTree<double, double, NbData, long, NbRhs, std::array<long,1>, std::array<long,1>>;
    const long N = 7;
    std::vector<std::array<double, NbData>> parts(N);
    for(long i = 0 ; i < N ; ++i){
        parts[i] = {{ (i*37 % 10) / 10.0 + 0.01, (i*53 % 10) / 10.0 + 0.02, (i*71 % 10) / 10.0 + 0.03, double(100 + i) }};
    }
    TbfSpacialConfiguration<double, Dim> cfg(3, {{1,1,1}}, {{0.5,0.5,0.5}});
    Tree tree(cfg, parts, 2, false);
    tree.applyToAllLeaves([](auto&& leafHeader, const long int* idx, auto&& /*data*/, auto&& rhs){
        for(long k = 0 ; k < leafHeader.nbParticles ; ++k){ rhs[0][k] = 1000 + idx[k]; rhs[1][k] = 2000 + idx[k]; }
    });
    bool bad = false;
    if(a.harness.find("rhs") == std::string::npos){
        auto data = tree.getAllParticlesData();
        for(long i = 0 ; i < N ; ++i) for(long v = 0 ; v < NbData ; ++v) if(data[i][v] != parts[i][v]) bad = true;
    } else {
        auto rhs = tree.getAllParticlesRhs();
        for(long i = 0 ; i < N ; ++i) if(rhs[i][0] != 1000 + i || rhs[i][1] != 2000 + i) bad = true;
    }
    if(bad) reproduced(a.harness.c_str()); else not_reproduced(a.harness.c_str());
    return 0;
}
