// treebuild_replay.cpp - native re-check (real headers, no extraction) of the configuration on which a bounded
// treebuild harness failed.  Built with -DCFG_NP -DCFG_POS -DCFG_BS -DCFG_MODE [-DCFG_MOVE] (+ variant defines).
// usage: replay.bin <harness>     prints REPRODUCED (exit 1) when the real TbfTree violates one of the C06/C07/C13
// statements on this configuration, NOT-REPRODUCED (exit 0) otherwise.
#include <algorithm>
#include "spacial/tbfmortonspaceindex.hpp"
#include "spacial/tbfspacialconfiguration.hpp"
#include "core/tbftree.hpp"
#include <vector>
#include <array>
#include <string>
#include <cstdio>
#include <cstring>
#ifndef NBDATA
#define NBDATA 2
#endif
#ifndef NBRHS
#define NBRHS 4
#endif
#ifndef NLEAF
#define NLEAF 4
#endif
#ifndef HEIGHT
#define HEIGHT 3
#endif
struct Mult { long c[NLEAF]; long self_index; long self_level; };
struct Loc { long c[NLEAF]; long self_index; long self_level; };
using Cfg = TbfSpacialConfiguration<double, 1>;
using M = TbfMortonSpaceIndex<1, Cfg, false>;
using Tree = TbfTree<double, double, NBDATA, long, NBRHS, Mult, Loc, M>;
static int bad = 0;
#define CHECK(c, msg) do { if(!(c)) { std::printf("  violated: %s\n", msg); bad++; } } while(0)
static long leaf_of_code(long code) { return code >= 8 ? NLEAF - 1 : code / 2; }
static double posof(long code) { return double(code) / 8.0; }

static void check_tree(Tree& t, const std::vector<std::array<double, NBDATA>>& in, const std::vector<long>& code, long bs, bool mode, bool fresh){
    long count[NLEAF] = {0};
    for(size_t p = 0 ; p < in.size() ; ++p) count[leaf_of_code(code[p])]++;
    std::vector<long> seen(in.size(), 0);
    for(long lv = HEIGHT - 1 ; lv >= 0 ; --lv){
        auto& groups = t.getCellGroupsAtLevel(lv);
        CHECK(groups.size() >= 1, "C07: every level has at least one group");
        long prev = -1, have = 0;
        for(auto& g : groups){
            const long n = g.getNbCells();
            CHECK(n >= 1, "C07: groups are non-empty");
            if(!mode) CHECK(n <= bs, "C07: no group exceeds the requested block size");
            if(n >= 1) CHECK(g.getStartingSpacialIndex() == g.getCellSpacialIndex(0) && g.getEndingSpacialIndex() == g.getCellSpacialIndex(n - 1), "C07: recorded first/last index match the content");
            for(long i = 0 ; i < n ; ++i){
                const long idx = g.getCellSpacialIndex(i);
                CHECK(idx > prev && 0 <= idx && idx < (1L << lv), "C07: cells strictly increasing across consecutive groups, inside the level");
                prev = idx;
                if(fresh) CHECK(g.getCellMultipole(i).c[0] == 0 && g.getCellLocal(i).c[NLEAF - 1] == 0, "C06: cell expansions start at zero");
            }
            have += n;
        }
        long want = 0;
        for(long c = 0 ; c < (1L << lv) ; ++c){ bool occ = false; for(long l = 0 ; l < NLEAF ; ++l) if(count[l] > 0 && (l >> (HEIGHT - 1 - lv)) == c) occ = true; if(occ) want++; }
        CHECK(have == want, "C07: the cells of a level are exactly the ancestors of the occupied leaves");
    }
    auto& leafGroups = t.getLeafGroups();
    auto& partGroups = t.getParticleGroups();
    CHECK(leafGroups.size() == partGroups.size(), "C07: leaf cell groups correspond one-to-one with particle groups");
    for(size_t g = 0 ; g < partGroups.size() && g < leafGroups.size() ; ++g){
        auto& pg = partGroups[g]; auto& cg = leafGroups[g];
        CHECK(pg.getNbLeaves() == cg.getNbCells() && pg.getStartingSpacialIndex() == cg.getStartingSpacialIndex() && pg.getEndingSpacialIndex() == cg.getEndingSpacialIndex(), "C07: particle group mirrors its leaf cell group");
        for(long l = 0 ; l < pg.getNbLeaves() ; ++l){
            const long leaf = pg.getLeafSpacialIndex(l);
            CHECK(l < cg.getNbCells() && leaf == cg.getCellSpacialIndex(l) && leaf >= 0 && leaf < NLEAF && pg.getNbParticlesInLeaf(l) == count[leaf], "C06/C07: leaf by leaf correspondence, every particle of the leaf present");
            auto data = pg.getParticleData(l); auto rhs = pg.getParticleRhs(l); const long* idxs = pg.getParticleIndexes(l);
            for(long k = 0 ; k < pg.getNbParticlesInLeaf(l) ; ++k){
                const long p = idxs[k];
                CHECK(0 <= p && p < long(in.size()), "C06: stored original index in range");
                if(p < 0 || p >= long(in.size())) continue;
                seen[p]++;
                CHECK(leaf_of_code(code[p]) == leaf, "C06: the particle sits in the leaf whose box contains its position");
                for(long v = 0 ; v < NBDATA ; ++v) CHECK(std::memcmp(&data[v][k], &in[p][v], sizeof(double)) == 0, "C06: data values are bit-identical copies");
                if(fresh) for(long v = 0 ; v < NBRHS ; ++v) CHECK(rhs[v][k] == 0, "C06: result values start at zero");
            }
        }
    }
    for(size_t p = 0 ; p < in.size() ; ++p) CHECK(seen[p] == 1, "C06: every input particle is stored exactly once");
}

int main(int argc, char** argv){
    const std::string harness = argc > 1 ? argv[1] : "bounded_build";
    Cfg cfg(HEIGHT, {1.0}, {0.5});
    std::vector<std::array<double, NBDATA>> in(CFG_NP);
    std::vector<long> code(CFG_NP);
    for(long p = 0 ; p < CFG_NP ; ++p){ code[p] = (CFG_POS >> (4 * p)) & 15; in[p][0] = posof(code[p]); for(long v = 1 ; v < NBDATA ; ++v) in[p][v] = 100.0 * v + p; }
    std::printf("configuration: %ld particles, position codes:", long(CFG_NP)); for(long c : code) std::printf(" %ld", c);
    std::printf(", block size %d, one-group-per-parent %d\n", int(CFG_BS), int(CFG_MODE));
    Tree t(cfg, in, CFG_BS, CFG_MODE != 0);
    check_tree(t, in, code, CFG_BS, CFG_MODE != 0, true);
    if(harness != "bounded_build"){
        for(auto& pg : t.getParticleGroups()) for(long l = 0 ; l < pg.getNbLeaves() ; ++l){
            auto rhs = pg.getParticleRhs(l); auto data = pg.getParticleData(l); const long* idxs = pg.getParticleIndexes(l);
            for(long k = 0 ; k < pg.getNbParticlesInLeaf(l) ; ++k){
                for(long s = 0 ; s < NBRHS ; ++s) rhs[s][k] = 1000 * (idxs[k] + 1) + s;
#ifdef CFG_MOVE
                if(idxs[k] == 0) data[0][k] = posof(CFG_MOVE);
#endif
                (void)data;
            }
        }
        for(long lv = 0 ; lv < HEIGHT ; ++lv) for(auto& g : t.getCellGroupsAtLevel(lv)) for(long i = 0 ; i < g.getNbCells() ; ++i){ g.getCellMultipole(i).c[0] = 7; g.getCellLocal(i).c[NLEAF - 1] = 9; }
#ifdef CFG_MOVE
        code[0] = CFG_MOVE; in[0][0] = posof(CFG_MOVE);
        std::printf("particle 0 moved to position code %d\n", int(CFG_MOVE));
#endif
        t.rebuild();
        check_tree(t, in, code, CFG_BS, CFG_MODE != 0, false);
        for(long lv = 0 ; lv < HEIGHT ; ++lv) for(auto& g : t.getCellGroupsAtLevel(lv)) for(long i = 0 ; i < g.getNbCells() ; ++i)
            CHECK(g.getCellMultipole(i).c[0] == 0 && g.getCellLocal(i).c[NLEAF - 1] == 0, "C13: rebuild resets every cell expansion to zero");
        for(auto& pg : t.getParticleGroups()) for(long l = 0 ; l < pg.getNbLeaves() ; ++l){
            auto rhs = pg.getParticleRhs(l); const long* idxs = pg.getParticleIndexes(l);
            for(long k = 0 ; k < pg.getNbParticlesInLeaf(l) ; ++k) for(long s = 0 ; s < NBRHS ; ++s)
                CHECK(rhs[s][k] == 1000 * (idxs[k] + 1) + s, "C13: rebuild keeps every particle's accumulated results under its original index");
        }
    }
    if(bad){ std::printf("REPRODUCED: %d statements violated on the real TbfTree for this configuration\n", bad); return 1; }
    std::printf("NOT-REPRODUCED\n");
    return 0;
}
