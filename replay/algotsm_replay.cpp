// algotsm_replay.cpp - native re-check (real headers, no extraction) of the configuration on which the bounded
// target/source executor harness failed: the same pair of tree shapes (source: CFG_OCC/CFG_CUTS, target:
// CFG_OCC2/CFG_CUTS2, upper level CFG_STOP) is built from the REAL group containers, the REAL TbfAlgorithmTsm runs
// on it with a native exactly additive counting
// kernel (per-source-leaf counters, same argument-geometry checks as the kernel model), and the same statements are
// evaluated.  usage: replay.bin <harness>;  prints REPRODUCED (exit 1) or NOT-REPRODUCED (exit 0).
#include "spacial/tbfmortonspaceindex.hpp"
#include "spacial/tbfspacialconfiguration.hpp"
#include "core/tbfcellscontainer.hpp"
#include "core/tbfparticlescontainer.hpp"
#include "algorithms/sequential/tbfalgorithmtsm.hpp"
#include <vector>
#include <array>
#include <string>
#include <cstdio>
#ifndef NBRHS
#define NBRHS 4
#endif
#ifndef NLEAF
#define NLEAF 4
#endif
#ifndef HEIGHT
#define HEIGHT 3
#endif
#ifndef CFG_STOP
#define CFG_STOP 2
#endif
static_assert(NBRHS >= NLEAF, "one result row per possible source leaf");
#define LEAFLVL (HEIGHT - 1)
static int bad = 0; static long ops_ran = 0, min_level = HEIGHT;
#define CHECK(c, msg) do { if(!(c)) { if(bad < 20) std::printf("  violated: %s\n", msg); bad++; } } while(0)
struct Mult { long c[NLEAF]; };
struct Loc { long c[NLEAF]; };
using Cfg = TbfSpacialConfiguration<double, 1>;
using M = TbfMortonSpaceIndex<1, Cfg, false>;
using Cells = TbfCellsContainer<double, Mult, Loc, M>;
using Parts = TbfParticlesContainer<double, double, 1, long, NBRHS, M>;
struct Kernel {
    Kernel(const Cfg&){}
    template <class S, class P, class L> void P2M(const S& symb, const long*, const P& data, const long nb, L& out){
        ops_ran |= 2; CHECK(nb == 1 && 0 <= symb.spaceIndex && symb.spaceIndex < NLEAF && long(data[0][0] * NLEAF) == symb.spaceIndex, "C02: P2M receives the particle of that leaf");
        out.c[symb.spaceIndex] += nb; }
    template <class S, class V, class L> void M2M(const S& symb, const long level, const V& children, L& out, const long* positions, const long nb){
        ops_ran |= 4; if(level < min_level) min_level = level;
        CHECK(1 <= nb && nb <= 2 && nb == long(children.size()), "C02: M2M is never called with an empty or oversized child list");
        for(long k = 0 ; k < nb ; ++k){ CHECK(0 <= positions[k] && positions[k] <= 1, "C02: M2M child position code is an octant"); for(long s = 0 ; s < NLEAF ; ++s) out.c[s] += children[k].get().c[s]; }
        (void)symb; }
    template <class S, class V, class L> void M2L(const S& symb, const long level, const V& srcs, const long* positions, const long nb, L& out){
        ops_ran |= 8; if(level < min_level) min_level = level;
        CHECK(1 <= nb && nb == long(srcs.size()), "C02: M2L is never called with an empty source list");
        for(long k = 0 ; k < nb ; ++k){ const long d = positions[k] - 3; CHECK((d >= 2 || d <= -2) && -3 <= d && d <= 3 && 0 <= symb.spaceIndex + d && symb.spaceIndex + d < (1L << level), "C02: M2L position code encodes a well separated offset inside the level");
            for(long s = 0 ; s < NLEAF ; ++s) out.c[s] += srcs[k].get().c[s]; } }
    template <class S, class U, class V> void L2L(const S&, const long level, const U& parent, V& children, const long*, const long nb){
        ops_ran |= 16; if(level < min_level) min_level = level;
        CHECK(1 <= nb && nb <= 2 && nb == long(children.size()), "C02: L2L is never called with an empty or oversized child list");
        for(long k = 0 ; k < nb ; ++k) for(long s = 0 ; s < NLEAF ; ++s) children[k].get().c[s] += parent.c[s]; }
    template <class S, class L, class P, class R> void L2P(const S&, const L& loc, const long*, const P&, R& rhs, const long nb){
        ops_ran |= 32; CHECK(nb == 1, "C02: L2P receives the particle of that leaf"); for(long s = 0 ; s < NLEAF ; ++s) rhs[s][0] += loc.c[s]; }
    template <class S, class P, class R, class S2, class P2, class R2> void P2P(const S& ssymb, const long*, const P&, R& srhs, const long snb, const S2& tsymb, const long*, const P2&, R2& trhs, const long tnb, const long code){
        ops_ran |= 1; const long d = ssymb.spaceIndex - tsymb.spaceIndex;
        CHECK(snb == 1 && tnb == 1 && (d == 1 || d == -1) && code == d + 1, "C02: P2P leaves are adjacent and distinct; position code is the offset");
        trhs[ssymb.spaceIndex][0] += snb; srhs[tsymb.spaceIndex][0] += tnb; }
    template <class S, class P, class S2, class P2, class R2> void P2PTsm(const S& ssymb, const long*, const P&, const long snb, const S2& tsymb, const long*, const P2&, R2& trhs, const long tnb, const long code){
        ops_ran |= 1; const long d = ssymb.spaceIndex - tsymb.spaceIndex;
        CHECK(snb == 1 && tnb == 1 && -1 <= d && d <= 1 && code == d + 1, "C09: P2PTsm leaves coincide or are adjacent; position code is the offset");
        trhs[ssymb.spaceIndex][0] += snb; }
    template <class S, class P, class R> void P2PInner(const S& symb, const long*, const P&, R& rhs, const long nb){
        ops_ran |= 64; rhs[symb.spaceIndex][0] += nb - 1; }
};
struct Side { std::vector<std::vector<Cells>> cellBlocks; std::vector<Parts> particleBlocks; bool occ[NLEAF]; };
struct Tree {
    Cfg configuration; M spaceSystem; Side src, tgt;
    Tree(const Cfg& c) : configuration(c), spaceSystem(c) {}
    const Cfg& getSpacialConfiguration() const { return configuration; }
    const M& getSpacialSystem() const { return spaceSystem; }
    std::vector<Cells>& getCellGroupsAtLevelSource(const long l){ return src.cellBlocks[l]; }
    const std::vector<Cells>& getCellGroupsAtLevelSource(const long l) const { return src.cellBlocks[l]; }
    std::vector<Cells>& getCellGroupsAtLevelTarget(const long l){ return tgt.cellBlocks[l]; }
    const std::vector<Cells>& getCellGroupsAtLevelTarget(const long l) const { return tgt.cellBlocks[l]; }
    std::vector<Cells>& getLeafGroupsSource(){ return src.cellBlocks.back(); }
    const std::vector<Cells>& getLeafGroupsSource() const { return src.cellBlocks.back(); }
    std::vector<Cells>& getLeafGroupsTarget(){ return tgt.cellBlocks.back(); }
    const std::vector<Cells>& getLeafGroupsTarget() const { return tgt.cellBlocks.back(); }
    std::vector<Parts>& getParticleGroupsSource(){ return src.particleBlocks; }
    const std::vector<Parts>& getParticleGroupsSource() const { return src.particleBlocks; }
    std::vector<Parts>& getParticleGroupsTarget(){ return tgt.particleBlocks; }
    const std::vector<Parts>& getParticleGroupsTarget() const { return tgt.particleBlocks; }
};
static void build_side(Tree& tree, Side& sd, long occmask, long cutmask){
    std::vector<std::vector<long>> cells(HEIGHT);
    for(long i = 0 ; i < NLEAF ; ++i){ sd.occ[i] = (occmask >> i) & 1; if(sd.occ[i]) cells[LEAFLVL].push_back(i); }
    for(long lv = LEAFLVL - 1 ; lv >= 0 ; --lv) for(long c : cells[lv + 1]) if(cells[lv].empty() || cells[lv].back() != (c >> 1)) cells[lv].push_back(c >> 1);
    sd.cellBlocks.resize(HEIGHT);
    for(long lv = 0 ; lv < HEIGHT ; ++lv){
        std::vector<long> seg;
        for(size_t i = 0 ; i < cells[lv].size() ; ++i){
            seg.push_back(cells[lv][i]);
            const bool cut = (i + 1 == cells[lv].size()) || ((cutmask >> (lv * NLEAF + i)) & 1);
            if(cut){
                sd.cellBlocks[lv].emplace_back(seg, tree.spaceSystem);
                if(lv == LEAFLVL){ std::vector<std::array<double, 1>> pos; for(long l : seg) pos.push_back({{(l + 0.5) / NLEAF}}); sd.particleBlocks.emplace_back(tree.spaceSystem, pos); }
                seg.clear();
            }
        }
    }
}
int main(int, char**){
    Cfg cfg(HEIGHT, {1.0}, {0.5});
    Tree tree(cfg);
    build_side(tree, tree.src, CFG_OCC, CFG_CUTS); build_side(tree, tree.tgt, CFG_OCC2, CFG_CUTS2);
    std::printf("configuration: source occupancy %ld cuts %ld, target occupancy %ld cuts %ld, upper level %d\n", long(CFG_OCC), long(CFG_CUTS), long(CFG_OCC2), long(CFG_CUTS2), int(CFG_STOP));
    auto rhs_of = [&](Side& sd, long leaf, long s) -> long {
        for(auto& pg : sd.particleBlocks) for(long l = 0 ; l < pg.getNbLeaves() ; ++l) if(pg.getLeafSpacialIndex(l) == leaf) return pg.getParticleRhs(l)[s][0];
        return -12345; };
    TbfAlgorithmTsm<double, Kernel, M> algo(cfg, CFG_STOP);
    algo.execute(tree, 63);
    for(long a = 0 ; a < NLEAF ; ++a) if(tree.tgt.occ[a]) for(long b = 0 ; b < NLEAF ; ++b)
        CHECK(rhs_of(tree.tgt, a, b) == (tree.src.occ[b] ? 1 : 0), "C09: each target leaf receives exactly one contribution from every occupied source leaf (its own position included) and nothing else");
    for(long a = 0 ; a < NLEAF ; ++a) if(tree.src.occ[a]) for(long b = 0 ; b < NLEAF ; ++b) CHECK(rhs_of(tree.src, a, b) == 0, "C09: source particles receive no results");
    for(long lv = 0 ; lv < HEIGHT ; ++lv){
        for(auto& g : tree.src.cellBlocks[lv]) for(long i = 0 ; i < g.getNbCells() ; ++i) for(long s = 0 ; s < NLEAF ; ++s) CHECK(g.getCellLocal(i).c[s] == 0, "C09: source cells receive no local expansion");
        for(auto& g : tree.tgt.cellBlocks[lv]) for(long i = 0 ; i < g.getNbCells() ; ++i) for(long s = 0 ; s < NLEAF ; ++s) CHECK(g.getCellMultipole(i).c[s] == 0, "C09: target cells receive no multipole expansion");
    }
    CHECK(min_level >= CFG_STOP, "C12: no cell operator is applied above the upper working level");
    if(bad){ std::printf("REPRODUCED: %d statements violated by the real target/source executor on this configuration\n", bad); return 1; }
    std::printf("NOT-REPRODUCED\n");
    return 0;
}
