// Native replay of CBMC counterexamples for the Morton unit: calls the REAL templates from
// /repo/src (no extraction) on the counterexample inputs and evaluates the same postconditions
// (L0 functions shared through contracts/morton_l0.h).
#include "spacial/tbfmortonspaceindex.hpp"
#include "spacial/tbfspacialconfiguration.hpp"
#include "replay_util.hpp"
#include "morton_l0.h"
#ifndef PERIODIC
#define PERIODIC 0
#endif
using Cfg = TbfSpacialConfiguration<double, DIM>;
using MI = TbfMortonSpaceIndex<DIM, Cfg, (PERIODIC != 0)>;

static std::array<long, DIM> arr(const ReplayArgs& a, const char* k){
    std::array<long, DIM> r{};
    auto v = a.ints(k);
    for(size_t d = 0 ; d < DIM && d < v.size() ; ++d) r[d] = v[d];
    return r;
}

int main(int argc, char** argv){
    ReplayArgs a(argc, argv);
    std::array<double, DIM> w, c; w.fill(1); c.fill(0.5);
    MI m(Cfg(3, w, c));
    const std::string& h = a.harness;
    bool bad = false;
    if(h == "h_decode"){
        long i = a.i("i");
        auto p = m.getBoxPosFromIndex(i);
        bad = !spec_decode_is(p.data(), i);
    }
    else if(h == "h_encode"){
        auto p = arr(a, "p");
        long r = m.getIndexFromBoxPos(p);   // may overflow / not terminate: UBSan or the timeout reports it
        bad = (r != spec_index(p.data()));
    }
    else if(h == "h_parent"){ long i = a.i("i"); bad = (m.getParentIndex(i) != (i >> DIM)); }
    else if(h == "h_childpos"){ long i = a.i("i"); bad = (m.childPositionFromParent(i) != (i & ((1L << DIM) - 1))); }
    else if(h == "h_child"){ long i = a.i("i"), cc = a.i("c"); bad = (m.getChildIndexFromParent(i, cc) != ((i << DIM) | cc)); }
    else if(h == "h_getUpperBound"){ long l = a.i("l"); bad = (m.getUpperBound(l) != (1L << (l * DIM))); }
    else if(h == "h_getBoxLimit"){ long l = a.i("l"); bad = (m.getBoxLimit(l) != (1L << l)); }
    else if(h == "h_rel7"){ long cc = a.i("c"); auto p = MI::getRelativePosFromInteractionIndex(cc); bad = !spec_offsets_within(p.data(), 3) || spec_code(p.data(), 7, 3) != cc; }
    else if(h == "h_rel3"){ long cc = a.i("c"); auto p = MI::getRelativePosFromNeighborIndex(cc); bad = !spec_offsets_within(p.data(), 1) || spec_code(p.data(), 3, 1) != cc; }
    else if(h == "h_code7"){ auto p = arr(a, "p"); long r = MI::getInteractionIndexFromRelativePos(p); bad = (r != spec_code(p.data(), 7, 3)) || r < 0 || r >= spec_ipow(7, DIM); }
    else if(h == "h_code3"){ auto p = arr(a, "p"); long r = MI::getNeighborIndexFromRelativePos(p); bad = (r != spec_code(p.data(), 3, 1)) || r < 0 || r >= spec_ipow(3, DIM); }
    else if(h == "h_nbchildren"){ bad = MI::getNbChildrenPerCell() != (1L << DIM); }
    else if(h == "h_nbinter"){ bad = MI::getNbInteractionsPerCell() != spec_ipow(6, DIM) - spec_ipow(3, DIM); }
    else if(h == "h_nbneigh"){ bad = MI::getNbNeighborsPerLeaf() != spec_ipow(3, DIM) - 1; }
    else if(h == "h_pow3"){ bad = MI::get3PowDim() != spec_ipow(3, DIM); }
    else if(h == "h_lipow"){ long v = a.i("v"), p = a.i("p"); bad = TbfUtils::lipow(v, p) != spec_ipow(v, p); }
    else { printf("NO-REPLAY-FOR %s\n", h.c_str()); return 0; }
    if(bad) reproduced(h.c_str()); else not_reproduced(h.c_str());
    return 0;
}
