// Instantiation driver (no logic): uses the real Morton space index with the configured
// template arguments so that clang instantiates exactly the member functions under contract.
#include "spacial/tbfmortonspaceindex.hpp"
#include "spacial/tbfspacialconfiguration.hpp"
#ifndef DIM
#define DIM 3
#endif
#ifndef PERIODIC
#define PERIODIC 0
#endif
using Cfg = TbfSpacialConfiguration<double, DIM>;
using M = TbfMortonSpaceIndex<DIM, Cfg, (PERIODIC != 0)>;
long verif_driver(const M& m, long i, long l, const std::array<double, DIM>& pos){
    auto p = m.getBoxPosFromIndex(i);
    long r = m.getIndexFromBoxPos(p);
    r += m.getParentIndex(i) + m.childPositionFromParent(i) + m.getChildIndexFromParent(i, 1);
    r += m.getUpperBound(l) + m.getBoxLimit(l) + m.getUpperBoundAtLeafLevel() + m.getBoxLimitAtLeafLevel();
    r += m.getIndexFromPosition(pos);
    auto v = m.getInteractionListForIndex(i, l);
    auto w = m.getNeighborListForIndex(i, l, true);
    r += M::getInteractionIndexFromRelativePos(M::getRelativePosFromInteractionIndex(l));
    r += M::getNeighborIndexFromRelativePos(M::getRelativePosFromNeighborIndex(l));
    r += M::getNbChildrenPerCell() + M::getNbInteractionsPerCell() + M::getNbNeighborsPerLeaf() + M::get3PowDim();
    return r + v.size() + w.size();
}
