// Instantiation driver (no logic): TbfTree construction and rebuild from a particle array, followed by the sequential executor.
#include <algorithm>
#include "spacial/tbfmortonspaceindex.hpp"
#include "spacial/tbfspacialconfiguration.hpp"
#include "core/tbftree.hpp"
#include "algorithms/sequential/tbfalgorithm.hpp"
#include <vector>
#include <array>
#ifndef DIM
#define DIM 1
#endif
#ifndef NBDATA
#define NBDATA 2
#endif
#ifndef NBRHS
#define NBRHS 4
#endif
#ifndef NLEAF
#define NLEAF 4
#endif
struct TbfVerifMultipole { long c[NLEAF]; long self_index; long self_level; };
struct TbfVerifLocal { long c[NLEAF]; long self_index; long self_level; };
using Cfg = TbfSpacialConfiguration<double, DIM>;
using M = TbfMortonSpaceIndex<DIM, Cfg, false>;
using Tree = TbfTree<double, double, NBDATA, long, NBRHS, TbfVerifMultipole, TbfVerifLocal, M>;
struct TbfVerifKernel {
    TbfVerifKernel(const Cfg&){}
    template <class S, class P, class L> void P2M(const S&, const long*, const P&, const long, L&){}
    template <class S, class V, class L> void M2M(const S&, const long, const V&, L&, const long*, const long){}
    template <class S, class V, class L> void M2L(const S&, const long, const V&, const long*, const long, L&){}
    template <class S, class U, class V> void L2L(const S&, const long, const U&, V&, const long*, const long){}
    template <class S, class L, class P, class R> void L2P(const S&, const L&, const long*, const P&, R&, const long){}
    template <class S, class P, class R, class S2, class P2, class R2> void P2P(const S&, const long*, const P&, R&, const long, const S2&, const long*, const P2&, R2&, const long, const long){}
    template <class S, class P, class R> void P2PInner(const S&, const long*, const P&, R&, const long){}
};
void verif_driver(const Cfg& cfg, const std::vector<std::array<double, NBDATA>>& parts, long bs, bool mode, TbfAlgorithm<double, TbfVerifKernel, M>& algo){
    Tree t(cfg, parts, bs, mode);
    algo.execute(t, 63);
    t.rebuild();
    auto dd = t.getParticleGroups()[0].getParticleData(0); auto rr = t.getParticleGroups()[0].getParticleRhs(0); (void)dd; (void)rr;
}
