// Instantiation driver (no logic) for TbfTree: bulk export, lookups, iteration.
#include "spacial/tbfmortonspaceindex.hpp"
#include "spacial/tbfspacialconfiguration.hpp"
#include "core/tbftree.hpp"
#include <vector>
#include <array>
#ifndef DIM
#define DIM 1
#endif
#ifndef NBDATA
#define NBDATA 2
#endif
#ifndef NBRHS
#define NBRHS 2
#endif
struct TbfVerifMultipole { long m0; };
struct TbfVerifLocal { long l0; };
using Cfg = TbfSpacialConfiguration<double, DIM>;
using M = TbfMortonSpaceIndex<DIM, Cfg, false>;
using Tree = TbfTree<double, double, NBDATA, long, NBRHS, TbfVerifMultipole, TbfVerifLocal, M>;
long verif_driver(Tree& t, long level, long idx){
    auto d = t.getAllParticlesData();
    auto r = t.getAllParticlesRhs();
    long s = (long)d[0][0] + r[0][0];
    auto c = t.findGroupWithCell(level, idx); if(c) s += c->second;
    auto l = t.findGroupWithLeaf(idx); if(l) s += l->second;
    return s;
}
