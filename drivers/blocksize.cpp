// Instantiation driver (no logic): the automatic block-size estimators used by the TbfTree / TbfTreeTsm constructors.
#include "spacial/tbfmortonspaceindex.hpp"
#include "spacial/tbfspacialconfiguration.hpp"
#include "algorithms/tbfblocksizefinder.hpp"
#include <vector>
#include <array>
#ifndef DIM
#define DIM 3
#endif
using Cfg = TbfSpacialConfiguration<double, DIM>;
using M = TbfMortonSpaceIndex<DIM, Cfg, false>;
using Parts = std::vector<std::array<double, DIM>>;
int verif_driver(const Parts& a, const Parts& b, const Cfg& cfg, int nbThreads){
    return TbfBlockSizeFinder::Estimate<double, Parts, M>(a, cfg, nbThreads)
         + TbfBlockSizeFinder::EstimateTsm<double, Parts, Parts, M>(a, b, cfg, nbThreads);
}
