// Instantiation driver (no logic) for the scalar direct-interaction routines of FP2PR.
#include "kernels/P2P/FP2PR.hpp"
#include <array>
#ifndef REAL
#define REAL float
#endif
using Vals = std::array<const REAL*, 4>;
using Rhs = std::array<REAL*, 4>;
void verif_driver(const Vals& s, Rhs& sr, long ns, const Vals& t, Rhs& tr, long nt, REAL* p){
    FP2PR::MutualParticles<REAL>(p[0], p[1], p[2], p[3], p+4, p+5, p+6, p+7, p[8], p[9], p[10], p[11], p+12, p+13, p+14, p+15);
    FP2PR::NonMutualParticles<REAL>(p[0], p[1], p[2], p[3], p[8], p[9], p[10], p[11], p+12, p+13, p+14, p+15);
    FP2PR::FullMutualScalar<REAL>(s, sr, ns, t, tr, nt);
    FP2PR::GenericInnerScalar<REAL>(t, tr, nt);
    FP2PR::GenericFullRemoteScalar<REAL>(s, ns, t, tr, nt);
}
