// Instantiation driver (no logic) for the periodic position shifter and the repetition arithmetic of the periodic top tree.
#include <algorithm>
#include "spacial/tbfmortonspaceindex.hpp"
#include "spacial/tbfspacialconfiguration.hpp"
#include "utils/tbfperiodicshifter.hpp"
#include "algorithms/periodic/tbfalgorithmperiodictoptree.hpp"
#include <array>
#include <vector>
#ifndef DIM
#define DIM 3
#endif
struct TbfVerifMultipole { long m0; };
struct TbfVerifLocal { long l0; };
struct TbfVerifKernel { };
struct TbfVerifSymb { long spaceIndex; std::array<long, DIM> boxCoord; };
using Cfg = TbfSpacialConfiguration<double, DIM>;
using PM = TbfMortonSpaceIndex<DIM, Cfg, true>;
using Shifter = TbfPeriodicShifter<double, PM>;
using Top = TbfAlgorithmPeriodicTopTree<double, TbfVerifKernel, TbfVerifMultipole, TbfVerifLocal, PM>;
struct TbfVerifTopAccess : public Top {
    static long rep(long l){ return Top::GetNbRepetitionsPerDim(l); }
    static long h(const Cfg& c, long l){ return Top::getExtendedTreeHeight(c, l) + Top::getExtendedTreeHeightBoundary(c, l); }
};
long verif_driver(const TbfVerifSymb& s, const TbfVerifSymb& t, const PM& pm, const Top& top, const Cfg& cfg, long code, long l){
    long r = Shifter::Neighbor::NeedToShift(s, t, pm, code);
    auto c = Shifter::Neighbor::GetShiftCoef(s, t, pm, code);
    r += (long)c[0];
    r += TbfVerifTopAccess::rep(l) + TbfVerifTopAccess::h(cfg, l);
    auto iv = top.getRepetitionsIntervals();
    r += iv.first[0] + iv.second[0] + top.getNbTotalRepetitions() + top.getNbRepetitionsPerDim();
    return r;
}
