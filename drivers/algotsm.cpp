// Instantiation driver (no logic) for the sequential target/source executor TbfAlgorithmTsm on a mock tree type that
// offers the same Source/Target accessors as TbfTreeTsm (the executor is a template over the tree class) and an
// opaque kernel.  The mock uses the same group container types on both sides (the real TbfTreeTsm drops the unused
// expansion / result arrays with void_data); the executor code under check is the real one.
#include "spacial/tbfmortonspaceindex.hpp"
#include "spacial/tbfspacialconfiguration.hpp"
#include "core/tbfcellscontainer.hpp"
#include "core/tbfparticlescontainer.hpp"
#include "algorithms/sequential/tbfalgorithmtsm.hpp"
#include <vector>
#ifndef DIM
#define DIM 1
#endif
#ifndef NBDATA
#define NBDATA 1
#endif
#ifndef NBRHS
#define NBRHS 4
#endif
#ifndef PERIODIC
#define PERIODIC 0
#endif
#ifndef NLEAF
#define NLEAF 4
#endif
struct TbfVerifMultipole { long c[NLEAF]; long self_index; long self_level; };
struct TbfVerifLocal { long c[NLEAF]; long self_index; long self_level; };
using Cfg = TbfSpacialConfiguration<double, DIM>;
using M = TbfMortonSpaceIndex<DIM, Cfg, (PERIODIC != 0)>;
using Cells = TbfCellsContainer<double, TbfVerifMultipole, TbfVerifLocal, M>;
using Parts = TbfParticlesContainer<double, double, NBDATA, long, NBRHS, M>;
struct TbfVerifKernel {
    TbfVerifKernel(const Cfg&){}
    template <class S, class P, class L> void P2M(const S&, const long*, const P&, const long, L&){}
    template <class S, class V, class L> void M2M(const S&, const long, const V&, L&, const long*, const long){}
    template <class S, class V, class L> void M2L(const S&, const long, const V&, const long*, const long, L&){}
    template <class S, class U, class V> void L2L(const S&, const long, const U&, V&, const long*, const long){}
    template <class S, class L, class P, class R> void L2P(const S&, const L&, const long*, const P&, R&, const long){}
    template <class S, class P, class S2, class P2, class R2> void P2PTsm(const S&, const long*, const P&, const long, const S2&, const long*, const P2&, R2&, const long, const long){}
};
struct TbfVerifTreeTsm {
    Cfg configuration;
    M spaceSystem;
    std::vector<std::vector<Cells>> cellBlocksSource, cellBlocksTarget;
    std::vector<Parts> particleBlocksSource, particleBlocksTarget;
    const Cfg& getSpacialConfiguration() const { return configuration; }
    const M& getSpacialSystem() const { return spaceSystem; }
    std::vector<Cells>& getCellGroupsAtLevelSource(const long inLevel){ return cellBlocksSource[inLevel]; }
    const std::vector<Cells>& getCellGroupsAtLevelSource(const long inLevel) const { return cellBlocksSource[inLevel]; }
    std::vector<Cells>& getCellGroupsAtLevelTarget(const long inLevel){ return cellBlocksTarget[inLevel]; }
    const std::vector<Cells>& getCellGroupsAtLevelTarget(const long inLevel) const { return cellBlocksTarget[inLevel]; }
    std::vector<Cells>& getLeafGroupsSource(){ return cellBlocksSource.back(); }
    const std::vector<Cells>& getLeafGroupsSource() const { return cellBlocksSource.back(); }
    std::vector<Cells>& getLeafGroupsTarget(){ return cellBlocksTarget.back(); }
    const std::vector<Cells>& getLeafGroupsTarget() const { return cellBlocksTarget.back(); }
    std::vector<Parts>& getParticleGroupsSource(){ return particleBlocksSource; }
    const std::vector<Parts>& getParticleGroupsSource() const { return particleBlocksSource; }
    std::vector<Parts>& getParticleGroupsTarget(){ return particleBlocksTarget; }
    const std::vector<Parts>& getParticleGroupsTarget() const { return particleBlocksTarget; }
};
void verif_driver(TbfAlgorithmTsm<double, TbfVerifKernel, M>& algo, TbfVerifTreeTsm& tree, int ops){
    algo.execute(tree, ops);
}
