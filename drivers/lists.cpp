// Instantiation driver (no logic) for the per-cell and per-group list builders of TbfMortonSpaceIndex.
#include "spacial/tbfmortonspaceindex.hpp"
#include "spacial/tbfspacialconfiguration.hpp"
#include "core/tbfcellscontainer.hpp"
#include "core/tbfparticlescontainer.hpp"
#ifndef DIM
#define DIM 2
#endif
#ifndef PERIODIC
#define PERIODIC 0
#endif
struct TbfVerifMultipole { long m0; };
struct TbfVerifLocal { long l0; };
using Cfg = TbfSpacialConfiguration<double, DIM>;
using M = TbfMortonSpaceIndex<DIM, Cfg, (PERIODIC != 0)>;
using Cells = TbfCellsContainer<double, TbfVerifMultipole, TbfVerifLocal, M>;
using Parts = TbfParticlesContainer<double, double, 1, long, 1, M>;
long verif_driver(const M& m, const Cells& c, const Parts& p, long i, long l, bool b){
    auto a = m.getInteractionListForIndex(i, l);
    auto n = m.getNeighborListForIndex(i, l, b);
    auto ib = m.getInteractionListForBlock(c, l, b);
    auto nb = m.getNeighborListForBlock(p, l, b, b);
    auto sb = m.getSelfListForBlock(p);
    return a.size() + n.size() + ib.first.size() + nb.second.size() + sb.size();
}
