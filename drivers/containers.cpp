// Instantiation driver (no logic) for the cell / particle group containers and their lookups.
#include "spacial/tbfmortonspaceindex.hpp"
#include "spacial/tbfspacialconfiguration.hpp"
#include "core/tbfcellscontainer.hpp"
#include "core/tbfparticlescontainer.hpp"
#ifndef DIM
#define DIM 3
#endif
#ifndef NBDATA
#define NBDATA 4
#endif
#ifndef NBRHS
#define NBRHS 2
#endif
struct TbfVerifMultipole { long m0; };
struct TbfVerifLocal { long l0; };
using Cfg = TbfSpacialConfiguration<double, DIM>;
using M = TbfMortonSpaceIndex<DIM, Cfg, false>;
using Cells = TbfCellsContainer<double, TbfVerifMultipole, TbfVerifLocal, M>;
using Parts = TbfParticlesContainer<double, double, NBDATA, long, NBRHS, M>;
long verif_driver(Cells& c, const Cells& cc, Parts& p, const Parts& cp, const M& m, long i){
  long r = cc.getNbCells() + cc.getStartingSpacialIndex() + cc.getEndingSpacialIndex() + cc.getCellSpacialIndex(i);
  r += cc.getCellSymbData(i).spaceIndex + c.getCellMultipole(i).m0 + cc.getCellMultipole(i).m0 + c.getCellLocal(i).l0 + cc.getCellLocal(i).l0;
  r += cc.getCellBoxCoord(i)[0];
  auto f = cc.getElementFromSpacialIndex(i); if(f) r += *f;
  auto g = cc.getElementFromParentIndex(m, i); if(g) r += *g;
  r += cp.getNbLeaves() + cp.getNbParticles() + cp.getLeafSpacialIndex(i) + cp.getNbParticlesInLeaf(i) + cp.getParticleIndexes(i)[0] + p.getParticleIndexes(i)[0];
  r += cp.getStartingSpacialIndex() + cp.getEndingSpacialIndex() + cp.getLeafBoxCoord(i)[0];
  r += (long)*cp.getParticleData(i)[0] + (long)*p.getParticleData(i)[0] + *cp.getParticleRhs(i)[0] + *p.getParticleRhs(i)[0] + cp.getLeafSymbData(i).nbParticles;
  auto h = cp.getElementFromSpacialIndex(i); if(h) r += *h;
  Cells c2(c.getDataPtr(), c.getDataSize(), c.getMultipolePtr(), c.getMultipoleSize(), c.getLocalPtr(), c.getLocalSize());
  Parts p2(p.getDataPtr(), p.getDataSize(), p.getRhsPtr(), p.getRhsSize());
  return r + c2.getNbCells() + p2.getNbLeaves();
}
