// Instantiation driver (no logic) for TbfMemoryBlock and its block kinds, with the two layouts the
// library really uses (cell groups: Scalar+Vector | Vector ; particle groups: Scalar+Vector+Vector+MultiR | MultiR).
#include "tbfglobal.hpp"
#include "containers/tbfmemoryblock.hpp"
#include "containers/tbfmemoryscalar.hpp"
#include "containers/tbfmemoryvector.hpp"
#include "containers/tbfmemorymultirvector.hpp"
#ifndef ITEMSIZE
#define ITEMSIZE 32
#endif
#ifndef NBROWS
#define NBROWS 4
#endif
struct TbfVerifHdr { long a, b, c, d; };
struct TbfVerifItem { unsigned char bytes[ITEMSIZE]; };
using BCells = TbfMemoryBlock<TbfMemoryScalar<TbfVerifHdr>, TbfMemoryVector<TbfVerifItem>>;
using BOne = TbfMemoryBlock<TbfMemoryVector<TbfVerifItem>>;
using BParts = TbfMemoryBlock<TbfMemoryScalar<TbfVerifHdr>, TbfMemoryVector<TbfVerifItem>, TbfMemoryVector<long>, TbfMemoryMultiRVector<double, NBROWS>>;
using BRhs = TbfMemoryBlock<TbfMemoryMultiRVector<long, NBROWS>>;
long verif_driver(long n, long i, long r){
    BCells b; b.resetBlocksFromSizes(std::array<long,2>{{1, n}});
    long s = b.getViewerForBlock<0>().getItem().a + b.getViewerForBlock<1>().getItem(i).bytes[0];
    s += b.getViewerForBlockConst<0>().getItem().a + b.getViewerForBlockConst<1>().getItem(i).bytes[0];
    BCells b2(b.getPtr(), b.getAllocatedMemorySizeInByte());
    BCells b3(b.getPtr(), b.getAllocatedMemorySizeInByte(), false); b3.initHeader();
    BCells b4; b4 = std::move(b2);
    BOne o; o.resetBlocksFromSizes(std::array<long,1>{{n}});
    s += o.getViewerForBlock<0>().getItem(i).bytes[0] + o.getViewerForBlockConst<0>().getItem(i).bytes[0];
    BOne o2(o.getPtr(), o.getAllocatedMemorySizeInByte());
    BParts p; p.resetBlocksFromSizes(std::array<long,4>{{1, n, n, n}});
    s += p.getViewerForBlock<2>().getItem(i) + (long)p.getViewerForBlock<3>().getItem(i, r) + (long)p.getViewerForBlockConst<3>().getItem(i, r);
    BParts p2(p.getPtr(), p.getAllocatedMemorySizeInByte());
    BRhs q; q.resetBlocksFromSizes(std::array<long,1>{{n}});
    s += q.getViewerForBlock<0>().getItem(i, r) + q.getViewerForBlockConst<0>().getItem(i, r);
    BRhs q2(q.getPtr(), q.getAllocatedMemorySizeInByte());
    s += b.isEmpty() + b.getAllocatedMemorySizeInByte();
    s += TbfUtils::GetLeadingDim<TbfVerifItem>(n, 64);
    return s;
}
