// Instantiation driver (no logic) for TbfInteractionCounter wrapped around an opaque base kernel.
#include "tbfglobal.hpp"
#include "kernels/counterkernels/tbfinteractioncounter.hpp"
#include <vector>
#include <array>
#include <functional>
struct TbfVerifSymb { long spaceIndex; };
struct TbfVerifMultipole { long m0; };
struct TbfVerifLocal { long l0; };
using PData = std::array<const double*, 2>;
using PRhs = std::array<long*, 1>;
struct TbfVerifBase {
    template <class S, class P, class L> void P2M(const S&, const long*, const P&, const long, L&){}
    template <class S, class V, class L> void M2M(const S&, const long, const V&, L&, const long*, const long){}
    template <class S, class V, class L> void M2L(const S&, const long, const V&, const long*, const long, L&){}
    template <class S, class U, class V> void L2L(const S&, const long, const U&, V&, const long*, const long){}
    template <class S, class L, class P, class R> void L2P(const S&, const L&, const long*, const P&, R&, const long){}
    template <class S, class P, class R> void P2P(const S&, const long*, const P&, R&, const long, const S&, const long*, const P&, R&, const long, const long){}
    template <class S, class P, class S2, class P2, class R2> void P2PTsm(const S&, const long*, const P&, const long, const S2&, const long*, const P2&, R2&, const long, const long){}
    template <class S, class P, class R> void P2PInner(const S&, const long*, const P&, R&, const long){}
};
using K = TbfInteractionCounter<TbfVerifBase>;
void verif_driver(K& k, const TbfVerifSymb& s, const long* idx, const PData& d, PRhs& r, TbfVerifMultipole& m, TbfVerifLocal& l,
                  const std::vector<std::reference_wrapper<const TbfVerifMultipole>>& ms, std::vector<std::reference_wrapper<TbfVerifLocal>>& ls, const long* pos, long n){
    k.P2M(s, idx, d, n, m);
    k.M2M(s, n, ms, m, pos, n);
    k.M2L(s, n, ms, pos, n, l);
    k.L2L(s, n, l, ls, pos, n);
    k.L2P(s, l, idx, d, r, n);
    k.P2P(s, idx, d, r, n, s, idx, d, r, n, n);
#ifdef WITH_TSM
    k.P2PTsm(s, idx, d, n, s, idx, d, r, n, n);
#endif
    k.P2PInner(s, idx, d, r, n);
    k.reset();
    auto c = K::Counters::Reduce(k.getReduceData(), k.getReduceData());
    (void)c;
}
