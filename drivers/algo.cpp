// Instantiation driver (no logic) for the sequential executor TbfAlgorithm on a mock tree type that offers the
// same accessors as TbfTree (the executor is a template over the tree class) and an opaque kernel.
#include "spacial/tbfmortonspaceindex.hpp"
#include "spacial/tbfspacialconfiguration.hpp"
#include "core/tbfcellscontainer.hpp"
#include "core/tbfparticlescontainer.hpp"
#include "algorithms/sequential/tbfalgorithm.hpp"
#include <vector>
#ifndef DIM
#define DIM 2
#endif
#ifndef NBDATA
#define NBDATA 3
#endif
#ifndef NBRHS
#define NBRHS 4
#endif
#ifndef PERIODIC
#define PERIODIC 0
#endif
#ifndef NLEAF
#define NLEAF 4
#endif
// per-source counters: an exactly additive kernel over NLEAF possible source leaves (plus ghost identity fields)
struct TbfVerifMultipole { long c[NLEAF]; long self_index; long self_level; };
struct TbfVerifLocal { long c[NLEAF]; long self_index; long self_level; };
using Cfg = TbfSpacialConfiguration<double, DIM>;
using M = TbfMortonSpaceIndex<DIM, Cfg, (PERIODIC != 0)>;
using Cells = TbfCellsContainer<double, TbfVerifMultipole, TbfVerifLocal, M>;
using Parts = TbfParticlesContainer<double, double, NBDATA, long, NBRHS, M>;
struct TbfVerifKernel {
    TbfVerifKernel(const Cfg&){}
    template <class S, class P, class L> void P2M(const S&, const long*, const P&, const long, L&){}
    template <class S, class V, class L> void M2M(const S&, const long, const V&, L&, const long*, const long){}
    template <class S, class V, class L> void M2L(const S&, const long, const V&, const long*, const long, L&){}
    template <class S, class U, class V> void L2L(const S&, const long, const U&, V&, const long*, const long){}
    template <class S, class L, class P, class R> void L2P(const S&, const L&, const long*, const P&, R&, const long){}
    template <class S, class P, class R, class S2, class P2, class R2> void P2P(const S&, const long*, const P&, R&, const long, const S2&, const long*, const P2&, R2&, const long, const long){}
    template <class S, class P, class R> void P2PInner(const S&, const long*, const P&, R&, const long){}
};
struct TbfVerifTree {
    Cfg configuration;
    M spaceSystem;
    std::vector<std::vector<Cells>> cellBlocks;
    std::vector<Parts> particleBlocks;
    const Cfg& getSpacialConfiguration() const { return configuration; }
    const M& getSpacialSystem() const { return spaceSystem; }
    std::vector<Cells>& getCellGroupsAtLevel(const long inLevel){ return cellBlocks[inLevel]; }
    const std::vector<Cells>& getCellGroupsAtLevel(const long inLevel) const { return cellBlocks[inLevel]; }
    std::vector<Cells>& getLeafGroups(){ return cellBlocks.back(); }
    const std::vector<Cells>& getLeafGroups() const { return cellBlocks.back(); }
    std::vector<Parts>& getParticleGroups(){ return particleBlocks; }
    const std::vector<Parts>& getParticleGroups() const { return particleBlocks; }
};
void verif_driver(TbfAlgorithm<double, TbfVerifKernel, M>& algo, TbfVerifTree& tree, int ops){
    algo.execute(tree, ops);
}
