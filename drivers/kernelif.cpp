// Instantiation driver (no logic) for TbfGroupKernelInterface: every operator wrapper, with an opaque kernel
// (declarations only - the kernels are user code) and the real cell / particle group containers.
#include "spacial/tbfmortonspaceindex.hpp"
#include "spacial/tbfspacialconfiguration.hpp"
#include "core/tbfcellscontainer.hpp"
#include "core/tbfparticlescontainer.hpp"
#include "core/tbfinteraction.hpp"
#include "containers/tbfvectorview.hpp"
#include "algorithms/sequential/tbfgroupkernelinterface.hpp"
#include <vector>
#include <functional>
#ifndef DIM
#define DIM 3
#endif
#ifndef NBDATA
#define NBDATA 4
#endif
#ifndef NBRHS
#define NBRHS 2
#endif
struct TbfVerifMultipole { long m0; };
struct TbfVerifLocal { long l0; };
using Cfg = TbfSpacialConfiguration<double, DIM>;
using M = TbfMortonSpaceIndex<DIM, Cfg, false>;
using Cells = TbfCellsContainer<double, TbfVerifMultipole, TbfVerifLocal, M>;
using Parts = TbfParticlesContainer<double, double, NBDATA, long, NBRHS, M>;
using Inter = TbfXtoXInteraction<long>;
using View = TbfVectorView<Inter>;
struct TbfVerifKernel {
    template <class S, class P, class L> void P2M(const S&, const long*, const P&, const long, L&){}
    template <class S, class V, class L> void M2M(const S&, const long, const V&, L&, const long*, const long){}
    template <class S, class V, class L> void M2L(const S&, const long, const V&, const long*, const long, L&){}
    template <class S, class U, class V> void L2L(const S&, const long, const U&, V&, const long*, const long){}
    template <class S, class L, class P, class R> void L2P(const S&, const L&, const long*, const P&, R&, const long){}
    template <class S, class P, class R, class S2, class P2, class R2> void P2P(const S&, const long*, const P&, R&, const long, const S2&, const long*, const P2&, R2&, const long, const long){}
    template <class S, class P, class S2, class P2, class R2> void P2PTsm(const S&, const long*, const P&, const long, const S2&, const long*, const P2&, R2&, const long, const long){}
    template <class S, class P, class R> void P2PInner(const S&, const long*, const P&, R&, const long){}
};
void verif_driver(const TbfGroupKernelInterface<M>& ki, TbfVerifKernel& k, Cells& upper, Cells& lower, const Cells& clower, const Cells& cupper, Parts& p, Parts& p2, const Parts& cp, const View& v, long level){
    ki.P2M(k, cp, lower);
    ki.M2M(level, k, clower, upper);
    ki.M2LInGroup(level, k, lower, v);
    ki.M2LBetweenGroups(level, k, lower, clower, v);
    ki.L2L(level, k, cupper, lower);
    ki.L2P(k, clower, p);
    ki.P2PInGroup(k, p, v);
    ki.P2PInner(k, p);
    ki.P2PBetweenGroups(k, p2, p, v);
    ki.P2PBetweenGroupsTsm(k, p2, p, v);
}
