#!/usr/bin/env python3
"""verif.py - driver of the contract-based verification of tbfmm with CBMC.

  verif.py check <PROPERTY> [--tier quick|thorough]      decide one property, write evidence/<id>.json
  verif.py extract <unit> [K=V ...]                      only run the extraction (debug)
  verif.py harness <unit> <harness> [K=V ...]            run one harness (debug)

exit 0: every obligation discharged (known findings listed);  exit 1: VIOLATION line printed;
exit 2: infrastructure problem (extraction abort, timeout, tool error) - never a violation.
"""
import sys, os, json, re, subprocess, time, hashlib, shutil, concurrent.futures, fnmatch, threading

ROOT = os.path.dirname(os.path.abspath(__file__))
REPO = os.environ.get('VERIF_REPO', '/repo')
sys.path.insert(0, os.path.join(ROOT, 'tools'))
import cxx2c

BUILD = os.path.join(ROOT, 'build') if REPO == '/repo' else os.path.join(ROOT, 'build', '_scratch', re.sub(r'\W+', '_', REPO))   # runs on scratch copies never share files with runs on /repo
NPROC = int(os.environ.get('VERIF_JOBS', '16'))
CBMC_CHECKS = ['--bounds-check', '--pointer-check', '--signed-overflow-check', '--undefined-shift-check',
               '--div-by-zero-check', '--unwinding-assertions', '--no-malloc-may-fail', '--sat-solver', 'cadical']


class Infra(Exception):
    pass


def sh(cmd, timeout=None, mem_mb=None, cwd=None, stdin=None):
    pre = ''
    if mem_mb:
        pre = 'ulimit -v %d; ' % (mem_mb * 1024)
    full = ['bash', '-c', pre + 'exec "$@"', 'sh'] + cmd
    t0 = time.time()
    try:
        p = subprocess.run(full, stdout=subprocess.PIPE, stderr=subprocess.PIPE, text=True, timeout=timeout, cwd=cwd, input=stdin)
        return p.returncode, p.stdout, p.stderr, time.time() - t0
    except subprocess.TimeoutExpired as e:
        return -999, (e.stdout or b'').decode('utf8', 'replace') if isinstance(e.stdout, bytes) else (e.stdout or ''), 'TIMEOUT', time.time() - t0


def load_unit(name):
    p = os.path.join(ROOT, 'units', name + '.json')
    u = json.load(open(p))
    u['name'] = name
    return u


def variant_tag(v):
    return '_'.join('%s%s' % (k, v[k]) for k in sorted(v)) or 'default'


def eval_int(expr, env):
    if isinstance(expr, int):
        return expr
    e = expr
    for k in sorted(env, key=len, reverse=True):
        e = re.sub(r'\b%s\b' % re.escape(k), str(env[k]), e)
    if not re.fullmatch(r'[0-9+\-*/() <>=!&|]+', e):
        raise Infra('cannot evaluate %r with %r' % (expr, env))
    return int(eval(e.replace('/', '//')))


HARNESS_RE = re.compile(r'/\*@\s*harness\s+(\w+)\s+(.*?)\*/', re.S)


def parse_harnesses(spec_path):
    txt = open(spec_path).read()
    out = []
    for m in HARNESS_RE.finditer(txt):
        h = {'name': m.group(1), 'enforce': None, 'replace': [], 'unwind': None, 'props': [], 'when': None, 'timeout': None,
             'loopcontracts': False, 'flags': [], 'pre_unwind': None, 'plain': None, 'solver': None, 'tier': None, 'enumerate': None, 'unwindset': None, 'expect': None, 'level': None, 'mem': None, 'bounded': None, 'objbits': None}
        for kv in m.group(2).split():
            if '=' not in kv:
                continue
            k, v = kv.split('=', 1)
            if k == 'replace':
                h['replace'] = [x for x in v.split(',') if x]
            elif k == 'props':
                h['props'] = v.split(',')
            elif k == 'flags':
                h['flags'] = v.split(',')
            else:
                h[k] = v
        out.append(h)
    return out


_extract_lock = threading.Lock()
_extract_cache = {}


def extract(unit, variant, force=False):
    """clang -> cxx2c -> build/<unit>/<tag>/unit.c ; returns (cfile, meta)"""
    tag = variant_tag(variant)
    key = (unit['name'], tag)
    with _extract_lock:
        if key in _extract_cache and not force:
            return _extract_cache[key]
        d = os.path.join(BUILD, unit['name'], tag)
        os.makedirs(d, exist_ok=True)
        t0 = time.time()
        driver = os.path.join(ROOT, unit['driver'])
        defines = dict(unit.get('defines', {}))
        defines.update(variant)
        try:
            docs = cxx2c.run_clang(driver, [os.path.join(REPO, 'src')] + [os.path.join(ROOT, x) for x in unit.get('incdirs', [])],
                                   defines, unit.get('filters', ['Tbf']), extra=unit.get('clang_flags', []))
            cfg = dict(unit)
            cfg['aliases'] = {k: v for k, v in unit.get('aliases', {}).items()}
            em = cxx2c.Emitter(docs, cfg)
            roots = []
            for pat in unit['roots']:
                ids = em.find_functions(pat)
                if not ids:
                    raise cxx2c.Unsupported('root pattern %r matches no instantiated function (renamed or removed?)' % pat)
                roots += ids
            em.run(roots)
            text = em.render(os.path.basename(unit['spec']))
        except (cxx2c.Unsupported, cxx2c.T.TypeErr) as e:
            raise Infra('extraction of unit %s [%s] failed: %s' % (unit['name'], tag, e))
        cfile = os.path.join(d, 'unit.c')
        open(cfile, 'w').write(text)
        meta = {'functions': em.func_info, 'loops': em.loop_macros, 'extract_s': round(time.time() - t0, 2), 'defines': defines,
                'protos': em.func_protos}
        json.dump(meta, open(os.path.join(d, 'meta.json'), 'w'), indent=1)
        # every LC_ macro defined by the spec must correspond to an existing loop
        spec_txt = open(os.path.join(ROOT, unit['spec'])).read()
        known = {m['macro'] for m in em.loop_macros}
        for m in re.finditer(r'#\s*define\s+(LC_\w+)', spec_txt):
            if m.group(1) not in known and not spec_optional(spec_txt, m.start()):
                raise Infra('spec %s defines loop contract %s but the extracted code has no such loop' % (unit['spec'], m.group(1)))
        _extract_cache[key] = (cfile, meta)
        return cfile, meta


def spec_optional(txt, pos):
    # a define inside an #if block that the current variant may disable: tolerated when marked
    line_start = txt.rfind('\n', 0, pos)
    prev = txt[max(0, line_start - 200):line_start]
    return 'LC-OPTIONAL' in prev


def cbmc_results_text(stdout):
    """parse cbmc's plain-text result listing (no traces: with --json-ui cbmc serialises a trace for every refuted
    property, the vacuity canary included, which costs minutes for harnesses with large symbolic objects)"""
    res = []
    status = None
    msgs = []
    cur_file = cur_fn = None
    seen = False
    for line in stdout.splitlines():
        m = re.match(r'^\[(\S+)\] (?:line (\d+) )?(.*): (SUCCESS|FAILURE|UNKNOWN|ERROR)$', line)
        if m:
            seen = True
            res.append({'property': m.group(1), 'description': m.group(3), 'status': m.group(4),
                        'sourceLocation': {'file': cur_file, 'line': m.group(2), 'function': cur_fn}})
            continue
        m = re.match(r'^(\S.*?) function (\S+)$', line)
        if m:
            cur_file, cur_fn = m.group(1), m.group(2)
            continue
        if line.startswith('VERIFICATION SUCCESSFUL'):
            status = 'success'
        elif line.startswith('VERIFICATION FAILED'):
            status = 'failure'
        elif line.startswith('VERIFICATION ERROR'):
            status = 'error'
        elif line.strip() and not re.match(r'^\*\* \d+ of \d+ failed', line):
            msgs.append(line)
    if not seen and status is None:
        return None, None, msgs
    return res, status, msgs


def cbmc_results(stdout):
    try:
        data = json.loads(stdout)
    except Exception:
        return None, None, []
    res = None
    status = None
    msgs = []
    for item in data:
        if 'result' in item:
            res = item['result']
        if 'cProverStatus' in item:
            status = item['cProverStatus']
        if 'messageText' in item:
            msgs.append(item['messageText'])
    return res, status, msgs


def enum_tree_configs(env, tier, seed):
    """concrete (occupancy, grouping, upper level) configurations of a small tree: all of them when few, a seeded sample otherwise"""
    import random, itertools
    dim = int(env.get('DIM', 1)); height = int(env.get('HEIGHT', 3)); nleaf = int(env.get('NLEAF', 4))
    rng = random.Random(seed * 7919 + dim * 31 + height)
    budget = int(env.get('NCFG', 60 if tier == 'quick' else 400))
    allcfg = []
    def cells_of(occ):
        lv = [None] * height
        lv[height - 1] = [i for i in range(nleaf) if (occ >> i) & 1]
        for l in range(height - 2, -1, -1):
            lv[l] = sorted({c >> dim for c in lv[l + 1]})
        return lv
    total = 0
    occs = list(range(1, 1 << nleaf))
    maxocc = int(env.get('MAXOCC', nleaf))
    occs = [o for o in occs if bin(o).count('1') <= maxocc]
    if len(occs) > 64:
        occs = sorted(set([occs[-1], 1, 1 << (nleaf - 1)] + rng.sample(occs, 61)))
    for occ in occs:
        lv = cells_of(occ)
        ncut = [max(0, len(c) - 1) for c in lv]
        nposs = 1
        for k in ncut:
            nposs *= (1 << k)
        if int(env.get('NOCUTS', 0)):
            nposs = 1
        picks = range(nposs) if nposs <= 16 else sorted(set([0, nposs - 1] + [rng.randrange(nposs) for _ in range(14)]))
        for pk in picks:
            cuts = 0
            rest = pk
            for l in range(height):
                m = rest & ((1 << ncut[l]) - 1)
                rest >>= ncut[l]
                cuts |= m << (l * nleaf)
            allcfg.append({'CFG_OCC': occ, 'CFG_CUTS': '%dL' % cuts, 'CFG_STOP': rng.choice([0, 1, 2, 2])})
    if len(allcfg) > budget:
        keep = [allcfg[0], allcfg[-1]] + rng.sample(allcfg[1:-1], budget - 2)
        allcfg = keep
    return allcfg


def enum_build_configs(env, tier, seed):
    """concrete particle sets (positions on a 9-point grid of the 1-D box), block sizes, grouping modes, optional move"""
    import random
    rng = random.Random(seed * 104729 + 17)
    budget = int(env.get('NCFG', 24 if tier == 'quick' else 300))
    maxnp = int(env.get('MAXNP', 3 if tier == 'quick' else 4))
    cfgs = []
    def mk(codes, bs, mode, move):
        c = {'CFG_NP': len(codes), 'CFG_POS': '%dL' % sum(cd << (4 * i) for i, cd in enumerate(codes)), 'CFG_BS': bs, 'CFG_MODE': mode}
        if move is not None:
            c['CFG_MOVE'] = move
        return c
    # hand-picked corner cases: both box faces, cell faces, coincident points, one leaf, all leaves
    fixed = [([0, 8], 1, 0, 4), ([8], 1, 1, 0), ([2, 2, 2], 2, 0, None), ([1, 3, 5][:maxnp], 1, 0, 7), ([0, 2, 4][:maxnp], 3, 1, None),
             ([7, 1], 2, 1, 1), ([4, 4], 1, 0, 8), ([0, 1], 1, 0, None), ([0, 2, 5][:maxnp], 1, 1, 3), ([1], 2, 0, 6), ([1, 3, 5, 7][:maxnp], 2, 0, 0), ([6, 8, 0][:maxnp], 1, 1, 3)]
    for codes, bs, mode, move in fixed:
        cfgs.append(mk(codes, bs, mode, move))
    while len(cfgs) < budget:
        n = rng.randint(1, maxnp)
        codes = [rng.randint(0, 8) for _ in range(n)]
        cfgs.append(mk(codes, rng.randint(1, 3), rng.randint(0, 1), rng.choice([None, rng.randint(0, 8)])))
    return cfgs[:budget]


def run_harness(unit, variant, h, tier='quick', keep=False):
    if h.get('enumerate') and not h.get('_cfg'):
        cfile, meta = extract(unit, variant)
        if h['enumerate'] == 'tree2':
            # two independent trees (source / target): pair two seeded enumerations
            import random
            seed = int(os.environ.get('VERIF_SEED', '0'))
            c1 = enum_tree_configs(meta['defines'], tier, seed)
            c2 = enum_tree_configs(meta['defines'], tier, seed + 1)
            random.Random(seed * 31 + 5).shuffle(c2)
            cfgs = [dict(a, CFG_OCC2=b['CFG_OCC'], CFG_CUTS2=b['CFG_CUTS']) for a, b in zip(c1, c2)]
        elif h['enumerate'] in ('tree', 'build'):
            cfgs = (enum_tree_configs if h['enumerate'] == 'tree' else enum_build_configs)(meta['defines'], tier, int(os.environ.get('VERIF_SEED', '0')))
        else:
            # explicit grid, e.g. enumerate=CFG_NS:0..2;CFG_NT:0..2
            import itertools
            axes = []
            for part in h['enumerate'].split(';'):
                k, _, rng_ = part.partition(':')
                lo, _, hi = rng_.partition('..')
                axes.append([(k, x) for x in range(int(lo), int(hi) + 1)])
            cfgs = [dict(c) for c in itertools.product(*axes)]
        if os.environ.get('VERIF_DEBUG_NCFG'):
            cfgs = cfgs[:int(os.environ['VERIF_DEBUG_NCFG'])]   # debugging aid only (never set by the registered commands)
        agg = None
        with concurrent.futures.ThreadPoolExecutor(max_workers=NPROC) as ex:
            futs = []
            for i, c in enumerate(cfgs):
                h2 = dict(h)
                h2['_cfg'] = c
                h2['_cfgid'] = i
                futs.append(ex.submit(run_harness, unit, variant, h2, tier, keep))
            rs = [f.result() for f in futs]
        agg = dict(rs[0])
        agg['obligations'] = []
        agg['failed'] = []
        agg['time'] = 0
        agg['n_loop_inv'] = 0
        agg['configs'] = len(cfgs)
        agg['sample_configs'] = cfgs[:3]
        for c, r in zip(cfgs, rs):
            if r['status'] == 'infra':
                agg.update(status='infra', reason='config %s: %s' % (c, r.get('reason')))
                return agg
            agg['obligations'] += r['obligations']
            for o in r['failed']:
                o['desc'] = '%s [config %s]' % (o['desc'], c)
                o['config'] = c
            agg['failed'] += r['failed']
            agg['time'] += r['time']
        agg['time'] = round(agg['time'], 1)
        agg['status'] = 'fail' if agg['failed'] else 'pass'
        return agg
    """returns dict(status=pass|fail|infra, obligations=[...], failed=[...], time=..., cmd=...)"""
    tag = variant_tag(variant)
    r = {'unit': unit['name'], 'variant': tag, 'harness': h['name'], 'enforce': h['enforce'], 'replace': h['replace']}
    try:
        cfile, meta = extract(unit, variant)
    except Infra as e:
        r.update(status='infra', reason=str(e))
        return r
    env = dict(meta['defines'])
    d = os.path.dirname(cfile)
    defs = ['-D%s=%s' % (k, v) for k, v in meta['defines'].items()] + ['-D__CPROVER', '-DVERIF_HARNESS_%s' % h['name']]
    for x in (h.get('defs') or '').split(','):
        if x:
            defs.append('-D' + x)
    sfx = ''
    if h.get('_cfg'):
        for k, val in h['_cfg'].items():
            defs.append('-D%s=%s' % (k, val))
        sfx = '.c%d' % h['_cfgid']
    # functions named by the harness must exist
    spec_txt = open(os.path.join(ROOT, unit['spec'])).read()
    for f in ([h['enforce']] if h['enforce'] else []) + h['replace']:
        if f not in meta['protos'] and not (f.startswith('__verif_') and re.search(r'\b%s\s*\(' % re.escape(f), spec_txt)):
            r.update(status='infra', reason='contract target %s not found in extracted unit (renamed/removed?)' % f)
            return r
    if h['enforce'] and not meta['functions'][h['enforce']]['body']:
        r.update(status='infra', reason='function %s has no extracted body' % h['enforce'])
        return r
    gb1 = os.path.join(d, h['name'] + sfx + '.1.gb')
    gb2 = os.path.join(d, h['name'] + sfx + '.2.gb')
    t0 = time.time()
    rc, so, se, _ = sh(['goto-cc', '-I', os.path.join(ROOT, 'contracts'), '-I', d] + defs + ['--function', h['name'], cfile, '-o', gb1], timeout=300)
    if rc != 0:
        r.update(status='infra', reason='goto-cc failed: ' + (se + so)[-3000:])
        return r
    if h.get('pre_unwind'):
        # loops of inlined callees that carry no loop contract are unwound completely (with unwinding assertions)
        # before the loop contracts of the function under proof are applied
        gb0 = os.path.join(d, h['name'] + '.0.gb')
        rc, so, se, _ = sh(['goto-instrument', '--unwindset', h['pre_unwind'], '--unwinding-assertions', gb1, gb0], timeout=300)
        if rc != 0:
            r.update(status='infra', reason='goto-instrument --unwindset failed: ' + (se + so)[-2000:])
            return r
        os.replace(gb0, gb1)
    plain = h.get('plain') in ('1', 'yes')
    gi = ['goto-instrument', '--no-malloc-may-fail', '--dfcc', h['name']]
    if h['enforce']:
        gi += ['--enforce-contract', h['enforce']]
    for g in h['replace']:
        gi += ['--replace-call-with-contract', g]
    if h['loopcontracts'] in ('1', 'yes', True):
        gi += ['--apply-loop-contracts']
    gi += [gb1, gb2]
    if plain:
        # bounded run of real bodies without any contract: no instrumentation needed
        gi = ['cp', gb1, gb2]
    rc, so, se, _ = sh(gi, timeout=600, mem_mb=12000)
    if rc != 0:
        r.update(status='infra', reason='goto-instrument failed: ' + (se + so)[-3000:])
        return r
    if 'no body for' in so + se and False:
        pass
    checks = list(CBMC_CHECKS)
    if h.get('solver') in ('cvc5-fpa', 'z3-fpa'):
        # SMT back end with the floating-point theory (term sharing makes "same computation" equalities trivial)
        i = checks.index('--sat-solver')
        del checks[i:i + 2]
        checks += ['--' + h['solver'].split('-')[0], '--fpa']
    cb = ['cbmc', gb2] + checks   # plain-text results; traces are fetched in a second (--json-ui --trace) run, only for refuted obligations
    if h['unwind']:
        cb += ['--unwind', str(eval_int(h['unwind'], env))]
    if h['unwindset']:
        us = h['unwindset']
        if us in env:
            us = str(env[us])
        if us and us != 'none':
            cb += ['--unwindset', us]
    ob = h['objbits'] or unit.get('objbits')
    if ob:
        cb += ['--object-bits', str(ob)]
    for fl in h['flags']:
        cb.append('--' + fl.split(':')[0])
        cb += fl.split(':')[1:]
    tmo = int(h['timeout'] or unit.get('timeout', 600))
    if tier == 'thorough':
        tmo *= 3
    rc, so, se, dt = sh(cb, timeout=tmo, mem_mb=int(h['mem'] or 16000))
    r['cmd'] = ' '.join(gi) + ' && ' + ' '.join(cb)
    r['time'] = round(time.time() - t0, 2)
    r['solver_time'] = round(dt, 2)
    if rc == -999:
        r.update(status='infra', reason='cbmc timeout after %ds' % tmo)
        return r
    res, status, msgs = cbmc_results_text(so)
    if res is None:
        r.update(status='infra', reason='cbmc gave no result (rc=%s): %s' % (rc, (so[-1500:] + se[-1500:])))
        return r
    bad_msgs = [m for m in msgs if re.search(r'ignoring|VERIFICATION ERROR|no body for|not unwound', m, re.I)]
    nobody = [m for m in msgs if 'no body for' in m]
    if nobody:
        r.update(status='infra', reason='function without body and without contract: ' + '; '.join(nobody[:5]))
        return r
    obs = []
    failed = []
    for p in res:
        loc = p.get('sourceLocation', {})
        o = {'name': p.get('property'), 'desc': p.get('description'), 'status': p.get('status'),
             'file': loc.get('file'), 'line': loc.get('line'), 'function': loc.get('function')}
        if 'vacuity canary' in (o['desc'] or ''):
            if o.get('function') != h['name']:
                continue          # canary of another (unreachable) harness compiled into the same binary
            o['canary'] = True
        elif loc.get('function') and loc.get('function') != h['name'] and (loc.get('function').startswith('h_') or loc.get('function').startswith('lemma_') or loc.get('function').startswith('bounded_') or loc.get('function').startswith('dbg_')):
            continue              # obligations inside other harness functions (unreachable from this entry point)
        obs.append(o)
        if p.get('status') == 'FAILURE' and not o.get('canary'):
            o['trace'] = p.get('trace')
            failed.append(o)
    canaries = [o for o in obs if o.get('canary')]
    obs = [o for o in obs if not o.get('canary')]
    r['canaries'] = len(canaries)
    r['obligations'] = obs
    r['failed'] = failed
    r['n_loop_inv'] = sum(1 for o in obs if 'loop_invariant' in (o['name'] or '') or 'loop invariant' in (o['desc'] or ''))
    undefd = [o for o in failed if 'undefined function should be unreachable' in (o['desc'] or '')]
    if undefd:
        # the code under proof calls a function that has neither an extracted body nor a contract in this unit: nothing is decided
        r.update(status='infra', reason='call to a function without body and without contract (%s): extend the unit (bodies / contract) before trusting this harness' % undefd[0]['name'])
        return r
    unw = [o for o in failed if '.unwind.' in (o['name'] or '') or 'unwinding assertion' in (o['desc'] or '') or (o['desc'] or '').startswith('model:') or (o['desc'] or '').startswith('harness:')]
    if unw and not h.get('unwind_is_property'):
        # a loop needs more iterations than the harness allows: the bound is too small, nothing is decided
        r.update(status='infra', reason='unwinding / model-capacity assertion failed (%s at %s:%s): a bound of this harness is too small, nothing is decided' % (unw[0]['name'], unw[0]['file'], unw[0]['line']))
        return r
    vac = [o for o in canaries if o['status'] == 'SUCCESS']
    if vac and not failed:
        r.update(status='infra', reason='vacuous harness: the canary assertion after the call is unreachable (contradictory preconditions?)')
        return r
    undecided = [o for o in obs if o['status'] not in ('SUCCESS', 'FAILURE')]
    r['undecided'] = len(undecided)
    if failed:
        r['status'] = 'fail'
        # second run: counterexample traces for (at most three of) the refuted obligations only
        # (--trace on the vacuity canary alone can cost minutes of JSON for large symbolic objects)
        want = [o for o in failed if o.get('name')][:3]
        cb2 = cb + ['--json-ui', '--trace'] + sum([['--property', o['name']] for o in want], [])
        rc2, so2, se2, dt2 = sh(cb2, timeout=min(tmo, 300), mem_mb=int(h['mem'] or 16000))
        if rc2 != -999:
            res2, _, _ = cbmc_results(so2)
            for p in (res2 or []):
                for o in want:
                    if p.get('property') == o['name'] and p.get('trace'):
                        o['trace'] = p.get('trace')
    elif undecided:
        r['status'] = 'infra'
        r['reason'] = '%d obligations undecided (%s) without any refuted one' % (len(undecided), undecided[0]['status'])
    else:
        only_canary_failed = canaries and all(o['status'] == 'FAILURE' for o in canaries)
        r['status'] = 'pass' if (status == 'success' or (status == 'failure' and only_canary_failed)) else 'infra'
        if r['status'] == 'infra':
            r['reason'] = 'cbmc status %s' % status
    if not keep:
        for f in (gb1, gb2):
            try:
                os.remove(f)
            except OSError:
                pass
    return r


# ------------------------------------------------------------------------------------ property checks
def load_props():
    return json.load(open(os.path.join(ROOT, 'props.json')))


def known_findings():
    out = []
    p = os.path.join(ROOT, 'known_findings.txt')
    if os.path.exists(p):
        for line in open(p):
            line = line.strip()
            if line.startswith('finding:'):
                f = {}
                head, _, text = line[8:].partition('::')
                for kv in head.split():
                    k, _, v = kv.partition('=')
                    f[k] = v
                f['text'] = text.strip()
                out.append(f)
    return out


def match_finding(kf, prop, r, o):
    for f in kf:
        if f.get('property') != prop:
            continue
        if not fnmatch.fnmatch(r['unit'], f.get('unit', '*')):
            continue
        if not fnmatch.fnmatch(r['variant'], f.get('variant', '*')):
            continue
        if not fnmatch.fnmatch(r['harness'], f.get('harness', '*')):
            continue
        loc = '%s:%s' % (os.path.relpath(o['file'], REPO) if o.get('file', '') and o['file'].startswith(REPO) else o.get('file'), o.get('line'))
        if 'at' in f and not fnmatch.fnmatch(loc, f['at']):
            continue
        if 'obligation' in f and not re.search(f['obligation'], (o.get('name') or '') + ' ' + (o.get('desc') or '')):
            continue
        return f
    return None


def trace_inputs(o, harness):
    """values the counterexample gives to the harness's own variables"""
    vals = {}
    for st in o.get('trace') or []:
        if st.get('stepType') == 'assignment' and st.get('sourceLocation', {}).get('function') == harness or \
                (st.get('stepType') == 'assignment' and st.get('lhs', '').startswith(harness + '::')):
            lhs = st.get('lhs')
            v = st.get('value', {})
            if lhs is None:
                continue
            if 'data' in v:
                vals[lhs] = v['data']
            elif 'members' in v or 'elements' in v:
                vals[lhs] = flatten_value(v)
    return vals


def flatten_value(v):
    if 'data' in v:
        return v['data']
    if 'elements' in v:
        return [flatten_value(e.get('value', {})) for e in v['elements']]
    if 'members' in v:
        return {m.get('name'): flatten_value(m.get('value', {})) for m in v['members']}
    return None


def write_replay(prop, r, o, native):
    os.makedirs(os.path.join(ROOT, 'replays'), exist_ok=True)
    name = '%s-%s-%s-%s' % (prop, r['unit'], re.sub(r'[^A-Za-z0-9_.]', '_', r['variant'])[:60], re.sub(r'[^A-Za-z0-9_.]', '_', o.get('name') or 'obligation'))
    if o.get('config'):
        name += '-cfg_' + re.sub(r'[^A-Za-z0-9]+', '_', '_'.join('%s%s' % (k[4:], v) for k, v in sorted(o['config'].items())))
    path = os.path.join(ROOT, 'replays', name + '.json')
    tr = o.get('trace') or []
    doc = {'property': prop, 'unit': r['unit'], 'variant': r['variant'], 'harness': r['harness'],
           'failed_obligation': {k: o.get(k) for k in ('name', 'desc', 'file', 'line', 'function')},
           'inputs': trace_inputs(o, r['harness']), 'configuration': o.get('config'), 'native_replay': native,
           'cbmc_cmd': r.get('cmd'),
           'cbmc_trace_tail': [{k: s.get(k) for k in ('stepType', 'lhs', 'value', 'sourceLocation', 'reason') if k in s} for s in tr[-40:]]}
    json.dump(doc, open(path, 'w'), indent=1, default=str)
    return path


def native_replay(unit, variant, r, o):
    """try to reproduce the counterexample on the real C++ code. returns dict(reproduced=bool|None, output=str)"""
    rp = unit.get('replay')
    if not rp:
        return {'reproduced': None, 'output': 'no native replay program for this unit'}
    inputs = trace_inputs(o, r['harness'])
    d = os.path.join(BUILD, unit['name'], variant_tag(variant))
    exe = os.path.join(d, 'replay.bin')
    defs = ['-D%s=%s' % (k, v) for k, v in variant.items() if re.fullmatch(r'-?\w+', str(v))] + ['-D%s=%s' % (k, v) for k, v in (o.get('config') or {}).items()]
    rc, so, se, _ = sh(['g++', '-std=c++17', '-O1', '-g', '-fsanitize=undefined,address', '-fno-sanitize-recover=undefined', '-I', os.path.join(REPO, 'src'), '-I', os.path.join(ROOT, 'contracts'), '-I', os.path.join(ROOT, 'replay')] + defs +
                       [os.path.join(ROOT, rp), '-o', exe], timeout=600)
    if rc != 0:
        return {'reproduced': None, 'output': 'replay build failed: ' + se[-2000:]}
    args = [exe, r['harness']] + ['%s=%s' % (k.split('::')[-1], json.dumps(v) if not isinstance(v, str) else v) for k, v in inputs.items()]
    rc, so, se, _ = sh(['timeout', '20'] + args, timeout=30)
    out = (so + se)[-3000:]
    if rc == 124 or rc == -999:
        return {'reproduced': True, 'output': 'native run does not terminate (timeout 20 s) on these inputs\n' + out, 'args': args[1:]}
    if 'REPRODUCED' in so and 'NOT-REPRODUCED' not in so:
        return {'reproduced': True, 'output': out, 'args': args[1:]}
    if rc != 0 and 'NOT-REPRODUCED' not in so:
        return {'reproduced': True, 'output': 'native run failed (rc=%d): %s' % (rc, out), 'args': args[1:]}
    return {'reproduced': False, 'output': out, 'args': args[1:]}


def check(prop, tier, seed=0):
    t0 = time.time()
    props = load_props()
    if prop not in props:
        print('property %s is not claimed (see MANIFEST not_applicable)' % prop)
        return 2
    pc = props[prop]
    jobs = []
    infra = []
    for uname in pc['units']:
        unit = load_unit(uname)
        variants = unit['variants'].get(tier) or unit['variants']['quick']
        hs = parse_harnesses(os.path.join(ROOT, unit['spec']))
        for v in variants:
            for h in hs:
                if prop not in h['props']:
                    continue
                if h['when']:
                    try:
                        if not eval_int(h['when'], dict(unit.get('defines', {}), **v)):
                            continue
                    except Infra as e:
                        infra.append(str(e))
                        continue
                if (h.get('tier') == 'thorough' and tier != 'thorough') or h.get('tier') == 'never':
                    continue
                jobs.append((unit, v, h))
    results = []
    # extraction first (serial per unit/variant, parallel across)
    with concurrent.futures.ThreadPoolExecutor(max_workers=NPROC) as ex:
        futs = {}
        seen = set()
        for unit, v, h in jobs:
            k = (unit['name'], variant_tag(v))
            if k not in seen:
                seen.add(k)
                futs[ex.submit(safe_extract, unit, v)] = k
        for f in concurrent.futures.as_completed(futs):
            e = f.result()
            if e:
                infra.append(e)
    with concurrent.futures.ThreadPoolExecutor(max_workers=NPROC) as ex:
        futs = [ex.submit(run_harness, unit, v, h, tier) for unit, v, h in jobs]
        for (unit, v, h), f in zip(jobs, futs):
            r = f.result()
            r['_unit'] = unit
            r['_variant'] = v
            r['_h'] = h
            results.append(r)
    kf = known_findings()
    n_obl = 0
    n_ok = 0
    violations = []
    known = []
    samples = []
    funcs = set()
    replaced = set()
    per_harness = []
    for r in results:
        if r['status'] == 'infra':
            infra.append('%s/%s/%s: %s' % (r['unit'], r['variant'], r['harness'], r.get('reason')))
            continue
        if r['enforce']:
            funcs.add(r['enforce'])
        replaced.update(r['replace'])
        n_obl += len(r['obligations'])
        n_ok += sum(1 for o in r['obligations'] if o['status'] == 'SUCCESS')
        per_harness.append({'unit': r['unit'], 'variant': r['variant'], 'harness': r['harness'], 'enforce': r['enforce'], 'replace': r['replace'],
                            'obligations': len(r['obligations']), 'failed': len(r['failed']), 'seconds': r['time'],
                            'loop_invariant_obligations': r['n_loop_inv'], 'bounded': r['_h'].get('bounded')})
        if len(samples) < 12 and r['obligations']:
            o = [x for x in r['obligations'] if (x['desc'] or '').startswith('C') or 'postcondition' in (x['desc'] or '') or 'ensures' in (x['desc'] or '')][:2] or r['obligations'][:1]
            for x in o:
                samples.append({'harness': r['harness'], 'variant': r['variant'], 'obligation': x['name'], 'description': x['desc'], 'status': x['status'],
                                'at': '%s:%s' % (x['file'], x['line'])})
        for o in r['failed']:
            f = match_finding(kf, prop, r, o)
            if f:
                known.append((f, r, o))
            else:
                violations.append((r, o))
    # vacuity floor
    floor = pc.get('min_obligations', 1)
    if not infra and n_obl < floor:
        infra.append('only %d obligations generated (floor %d): vacuous run' % (n_obl, floor))
    rc = 0
    seen_known = set()
    for f, r, o in known:
        key = f['text']
        if key in seen_known:
            continue
        seen_known.add(key)
        print('KNOWN-FINDING: property=%s %s' % (prop, f['text']))
    reported = set()
    per_base = {}
    vio_out = []
    for r, o in violations:
        key = (r['unit'], r['harness'], o.get('file'), o.get('line'), o.get('desc'))
        if key in reported:
            continue
        reported.add(key)
        base = (r['unit'], r['harness'], o.get('file'), o.get('line'))
        per_base[base] = per_base.get(base, 0) + 1
        if per_base[base] > 3:
            rc = 1
            continue        # same obligation refuted on further configurations: three replays per obligation are enough
        nat = native_replay(r['_unit'], r['_variant'], r, o)
        path = write_replay(prop, r, o, nat)
        tail = '' if nat.get('reproduced') else ' no-failing-input-found'
        print('# failed obligation %s [%s] %s at %s:%s in %s/%s/%s' % (o.get('name'), o.get('status'), o.get('desc'), o.get('file'), o.get('line'), r['unit'], r['variant'], r['harness']))
        print('VIOLATION property=%s replay=%s%s' % (prop, path, tail))
        vio_out.append({'obligation': o.get('name'), 'desc': o.get('desc'), 'at': '%s:%s' % (o.get('file'), o.get('line')), 'harness': r['harness'], 'variant': r['variant'], 'replay': path, 'reproduced_natively': nat.get('reproduced')})
        rc = 1
    if infra and rc == 0:
        for x in infra:
            print('INFRA: ' + x)
        rc = 2
    # evidence
    bounded = [p for p in per_harness if p.get('bounded')]
    ev = {
        'property_id': prop, 'tier': tier, 'seed': seed, 'level': pc.get('level', 'proof'),
        'coverage': {
            'obligations': n_obl, 'discharged': n_ok,
            'evaluations': sum(int(r.get('configs') or 1) for r in results),
            'distinct_nontrivial': sum(int(r.get('configs') or 1) for r in results if r.get('status') in ('pass', 'fail') and len(r.get('obligations', [])) > 0),
            'rule': 'one evaluation = one cbmc run of one harness (one function contract, lemma or bounded stand-in) for one template variant and, for enumerated harnesses, one concrete configuration; all are distinct by construction (different harness, variant or configuration); a run is non-trivial when it generated at least one obligation and its vacuity canary after the call was reachable (otherwise the run is reported as infra, exit 2)',
            'checker_cmd': 'goto-cc --function H unit.c && goto-instrument --dfcc H [--enforce-contract F] [--replace-call-with-contract G]* --apply-loop-contracts && cbmc ' + ' '.join(CBMC_CHECKS) + ' [--unwind N] (SAT back end, CBMC 6.11)',
            'trusted_base': pc.get('trusted_base', []) + COMMON_TRUST,
            'functions_under_contract_enforced': sorted(funcs),
            'contracts_used_at_call_sites': sorted(replaced),
            'harnesses': per_harness,
            'bounded_stand_ins': bounded,
            'samples': samples,
            'known_findings_hit': sorted(seen_known),
            'violations': vio_out,
            'infra_problems': infra,
            'scope': pc.get('scope', ''),
            'explanation': (pc.get('scope', '') + ' || unbounded contract-enforced harnesses: %d; bounded stand-ins (never counted as proved): %d' % (len(per_harness) - len(bounded), len(bounded))),
            'configs_enumerated': sum(r.get('configs', 0) for r in results if r.get('configs')),
            'not_decided': pc.get('not_decided', []),
            'solver_seconds_total': round(sum(p['seconds'] for p in per_harness), 1),
        },
        'assumptions': pc.get('assumptions', []) + COMMON_ASSUME,
        'wall_s': round(time.time() - t0, 2),
        'violations': len(vio_out),
    }
    evdir = os.environ.get('VERIF_EVIDENCE_DIR') or os.path.join(ROOT, 'evidence')   # the override is for runs on scratch copies (seeded changes) only
    os.makedirs(evdir, exist_ok=True)
    json.dump(ev, open(os.path.join(evdir, prop + '.json'), 'w'), indent=1)
    print('%s [%s]: %d harness runs, %d obligations, %d discharged, %d known-finding obligations, %d violations, %d infra; %.1fs' %
          (prop, tier, len(results), n_obl, n_ok, len(known), len(vio_out), len(infra), time.time() - t0))
    return rc


COMMON_TRUST = [
    'clang-14 front end: template instantiation and typing of /repo/src as dumped in its JSON AST (assumed to agree with g++ used by the suite)',
    'tools/cxx2c.py: AST->C printer (whitelist; aborts on anything unknown); drops destructors/RAII order, exceptions, stream output',
    'contracts/stl_model.h, contracts/prelude.h: hand-written C model of std::vector / std::abs,min,max',
    'CBMC 6.11 (goto-cc, goto-instrument --dfcc, SAT back end)']
COMMON_ASSUME = [
    'machine integers are bit-vectors of their real width (no idealisation); LP64',
    'callee contracts used at call sites are each enforced by their own harness in the unit that owns them, unless listed as assumed']


def safe_extract(unit, v):
    try:
        extract(unit, v)
        return None
    except Infra as e:
        return str(e)


def main(argv):
    if len(argv) < 2:
        print(__doc__)
        return 2
    cmd = argv[1]
    if cmd == 'check':
        prop = argv[2]
        tier = os.environ.get('VERIF_TIER', 'quick')
        if '--tier' in argv:
            tier = argv[argv.index('--tier') + 1]
        seed = int(os.environ.get('VERIF_SEED', '0'))
        try:
            return check(prop, tier, seed)
        except Infra as e:
            print('INFRA: %s' % e)
            return 2
    if cmd in ('extract', 'harness'):
        unit = load_unit(argv[2])
        rest = argv[3:] if cmd == 'extract' else argv[4:]
        v = dict(unit['variants']['quick'][0])
        for kv in rest:
            if '=' not in kv:
                continue
            k, _, val = kv.partition('=')
            v[k] = int(val) if re.fullmatch(r'-?\d+', val) else val
        try:
            cfile, meta = extract(unit, v, force=True)
        except Infra as e:
            print('INFRA: %s' % e)
            return 2
        print(cfile)
        if cmd == 'harness':
            hs = [h for h in parse_harnesses(os.path.join(ROOT, unit['spec'])) if fnmatch.fnmatch(h['name'], argv[3])]
            if not hs:
                print('no such harness')
                return 2
            with concurrent.futures.ThreadPoolExecutor(max_workers=NPROC) as ex:
                rs = list(ex.map(lambda h: run_harness(unit, v, h, 'quick', keep=True), hs))
            bad = 0
            for r in rs:
                print('== %s: %s  (%s obligations, %ss) %s' % (r['harness'], r['status'], len(r.get('obligations', [])), r.get('time'), r.get('reason', '')))
                for o in r.get('failed', []):
                    bad += 1
                    print('   FAILED %s: %s @ %s:%s' % (o['name'], o['desc'], o['file'], o['line']))
                    if '-v' in argv or os.environ.get('VERIF_TRACE'):
                        print('   inputs: %s' % json.dumps(trace_inputs(o, r['harness'])))
                if r['status'] != 'pass':
                    bad += 1
            return 1 if bad else 0
        return 0
    print(__doc__)
    return 2


if __name__ == '__main__':
    sys.exit(main(sys.argv))
