/* morton_l0.h - L0 specification functions for the Morton index algebra.
 * Pure C that is also valid C++: shared by the CBMC contracts (contracts/morton.h) and by the
 * native replay program (replay/morton_replay.cpp).  Parameters: DIM, LMAX. */
#ifndef MORTON_L0_H
#define MORTON_L0_H
#ifdef __cplusplus
#define _Bool bool
#endif
/* ---- L0: the mathematical definitions, written from the property text.
 * Morton curve, dimension 0 most significant inside each DIM-bit group:
 * bit k of coordinate d is bit k*DIM + (DIM-1-d) of the index.                          */
static inline long spec_coord(long idx, long d)
{
  long r = 0;
  for(long k = 0; k < LMAX; ++k) r |= ((idx >> (k * DIM + (DIM - 1 - d))) & 1L) << k;
  return r;
}
static inline long spec_index(const long *p)
{
  long r = 0;
  for(long k = 0; k < LMAX; ++k)
    for(long d = 0; d < DIM; ++d) r |= ((p[d] >> k) & 1L) << (k * DIM + (DIM - 1 - d));
  return r;
}
static inline _Bool spec_coords_below(const long *p, long lim)
{
  for(long d = 0; d < DIM; ++d) if(p[d] < 0 || p[d] >= lim) return 0;
  return 1;
}
static inline _Bool spec_decode_is(const long *p, long idx)
{
  for(long d = 0; d < DIM; ++d) if(p[d] != spec_coord(idx, d)) return 0;
  return 1;
}
/* position codes: base-B digits, dimension 0 most significant, digit = offset + R */
static inline long spec_code(const long *p, long B, long R)
{
  long c = 0;
  for(long d = 0; d < DIM; ++d) c = c * B + (p[d] + R);
  return c;
}
static inline _Bool spec_offsets_within(const long *p, long R)
{
  for(long d = 0; d < DIM; ++d) if(p[d] < -R || p[d] > R) return 0;
  return 1;
}
static inline long spec_ipow(long b, long e) { long r = 1; for(long i = 0; i < e; ++i) r *= b; return r; }
#define POW7 spec_ipow(7, DIM)
#define POW3 spec_ipow(3, DIM)
#define IDX_LIMIT (1L << (DIM * LMAX))
#define POS_LIMIT (1L << LMAX)


#endif
