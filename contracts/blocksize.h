/* Unit "blocksize": TbfBlockSizeFinder::Estimate / EstimateTsm (the default block size of the TbfTree / TbfTreeTsm
 * constructors).  Extracted with `lazy_unsupported`: the TBFMM_BLOCK_SIZE override (getenv + std::istringstream) is
 * outside the translatable subset; getenv is modelled as "variable not set", and the untranslatable branch is a
 * refutable `model:` obligation (reaching it would make the run undecided).  std::set is modelled by its size only. */
#ifdef SPEC_PART_MODEL
#include "prelude.h"
_Bool nondet_bool(void);
/* std::set<T>: abstract model - only the size is kept; an insertion adds one element or none (sound for size()) */
#define STD_SET_TYPE(NAME, T) struct NAME { unsigned long size; }; \
  static inline void NAME##__insert(struct NAME *v, T x) { (void)x; if(nondet_bool()) { __CPROVER_assume(v->size < (1UL << 62)); v->size++; } } \
  static inline unsigned long NAME##__size(const struct NAME *v) { return v->size; }
#define VERIF_SET_MODEL_DEFINED
#ifndef VEC_CAP
#define VEC_CAP 4
#endif
#include "stl_model.h"
#endif

#ifdef SPEC_PART_CONTRACTS
#define CAT2_(a, b) a##b
#define CAT2(a, b) CAT2_(a, b)
#define VEC_POS CAT2(std_vector_std_array_double_, DIM)
#define ARR_DBL CAT2(std_array_double_, DIM)
typedef struct TbfMortonSpaceIndex Morton;
#define NPMAX (1L << 40)
long M_getIndexFromPosition(const Morton *self, const struct ARR_DBL *inPos)
__CPROVER_requires(1) __CPROVER_ensures(1) __CPROVER_assigns();

/* C08/C09 (automatic block size): whatever the particles, the estimate is a usable block size (>= 1) */
int BS_Estimate(const struct VEC_POS *inParticlePositions, const struct TbfSpacialConfiguration *inConfiguration, const int inNbThreads)
__CPROVER_requires(__CPROVER_r_ok(inParticlePositions, sizeof(*inParticlePositions)) && __CPROVER_r_ok(inConfiguration, sizeof(*inConfiguration)))
__CPROVER_requires(inParticlePositions->size <= NPMAX && (inParticlePositions->size == 0 || __CPROVER_r_ok(inParticlePositions->data, inParticlePositions->size * sizeof(struct ARR_DBL))))
__CPROVER_requires(1 <= inNbThreads && inNbThreads <= 65536)
__CPROVER_ensures(__CPROVER_return_value >= 1)
__CPROVER_assigns();
#define LC_BS_Estimate_0 __CPROVER_assigns(idxPart, allIndexes.size) \
  __CPROVER_loop_invariant(0 <= idxPart && idxPart <= (long)inParticlePositions->size && allIndexes.size <= (unsigned long)idxPart) \
  __CPROVER_decreases((long)inParticlePositions->size - idxPart)

int BS_EstimateTsm(const struct VEC_POS *inParticlePositionsSource, const struct VEC_POS *inParticlePositionsTarget, const struct TbfSpacialConfiguration *inConfiguration, const int inNbThreads)
__CPROVER_requires(__CPROVER_r_ok(inParticlePositionsSource, sizeof(*inParticlePositionsSource)) && __CPROVER_r_ok(inParticlePositionsTarget, sizeof(*inParticlePositionsTarget)) && __CPROVER_r_ok(inConfiguration, sizeof(*inConfiguration)))
__CPROVER_requires(inParticlePositionsSource->size <= NPMAX && (inParticlePositionsSource->size == 0 || __CPROVER_r_ok(inParticlePositionsSource->data, inParticlePositionsSource->size * sizeof(struct ARR_DBL))))
__CPROVER_requires(inParticlePositionsTarget->size <= NPMAX && (inParticlePositionsTarget->size == 0 || __CPROVER_r_ok(inParticlePositionsTarget->data, inParticlePositionsTarget->size * sizeof(struct ARR_DBL))))
__CPROVER_requires(1 <= inNbThreads && inNbThreads <= 65536)
__CPROVER_ensures(__CPROVER_return_value >= 1)
__CPROVER_assigns();
#define LC_BS_EstimateTsm_0 __CPROVER_assigns(idxPart, allIndexes.size) \
  __CPROVER_loop_invariant(0 <= idxPart && idxPart <= (long)inParticlePositionsSource->size && allIndexes.size <= (unsigned long)idxPart) \
  __CPROVER_decreases((long)inParticlePositionsSource->size - idxPart)
#define LC_BS_EstimateTsm_1 __CPROVER_assigns(idxPart, allIndexes.size) \
  __CPROVER_loop_invariant(0 <= idxPart && idxPart <= (long)inParticlePositionsTarget->size && allIndexes.size <= (unsigned long)inParticlePositionsSource->size + (unsigned long)idxPart) \
  __CPROVER_decreases((long)inParticlePositionsTarget->size - idxPart)
#endif

#ifdef SPEC_PART_HARNESS
/*@ harness h_estimate enforce=BS_Estimate replace=M_getIndexFromPosition loopcontracts=1 unwind=4 props=C08,C15 timeout=600 */
void h_estimate(void)
{
  struct VEC_POS a; struct TbfSpacialConfiguration cfg; int nt;
  if(a.size) a.data = malloc(a.size * sizeof(struct ARR_DBL));
  BS_Estimate(&a, &cfg, nt);
  CANARY();
}
/*@ harness h_estimate_tsm enforce=BS_EstimateTsm replace=M_getIndexFromPosition loopcontracts=1 unwind=4 props=C09,C08,C15 timeout=600 */
void h_estimate_tsm(void)
{
  struct VEC_POS a, b; struct TbfSpacialConfiguration cfg; int nt;
  if(a.size) a.data = malloc(a.size * sizeof(struct ARR_DBL));
  if(b.size) b.data = malloc(b.size * sizeof(struct ARR_DBL));
  BS_EstimateTsm(&a, &b, &cfg, nt);
  CANARY();
}
#endif
