/* morton.h - contracts for TbfMortonSpaceIndex<DIM, Cfg, PERIODIC> (src/spacial/tbfmortonspaceindex.hpp)
 * Parameters (also given to the instantiation driver): DIM, PERIODIC, LMAX (largest level covered).
 * Sections: MODEL (before types), CONTRACTS (after prototypes), HARNESS (after bodies). */

#ifdef SPEC_PART_MODEL
#include "prelude.h"
#include "stl_model.h"
#define CAT_(a, b) a##b
#define CAT(a, b) CAT_(a, b)
#define ARR CAT(std_array_long_, DIM)
#define M(f) TbfMortonSpaceIndex__##f
typedef struct TbfMortonSpaceIndex Morton;
#endif

/* ===================================================================================== */
#ifdef SPEC_PART_CONTRACTS

#include "morton_l0.h"

/* ---- L1 contracts */
long M(getUpperBound)(const Morton *self, const long inLevel)
__CPROVER_requires(0 <= inLevel && inLevel <= 62 / DIM)
__CPROVER_ensures(__CPROVER_return_value == (1L << (inLevel * DIM)))
__CPROVER_assigns();

long M(getBoxLimit)(const Morton *self, const long inLevel)
__CPROVER_requires(0 <= inLevel && inLevel <= 62)
__CPROVER_ensures(__CPROVER_return_value == (1L << inLevel))
__CPROVER_assigns();

struct ARR M(getBoxPosFromIndex)(const Morton *self, long inMindex)
__CPROVER_requires(0 <= inMindex && inMindex < IDX_LIMIT)
__CPROVER_ensures(spec_decode_is(__CPROVER_return_value.d, inMindex))
__CPROVER_assigns();

long M(getIndexFromBoxPos)(const Morton *self, const struct ARR *inBoxPos)
__CPROVER_requires(__CPROVER_r_ok(inBoxPos, sizeof(*inBoxPos)))
__CPROVER_requires(spec_coords_below(inBoxPos->d, POS_LIMIT))
__CPROVER_ensures(__CPROVER_return_value == spec_index(inBoxPos->d))
__CPROVER_assigns();

long M(getParentIndex)(const Morton *self, long inIndex)
__CPROVER_requires(0 <= inIndex)
__CPROVER_ensures(__CPROVER_return_value == (inIndex >> DIM))
__CPROVER_assigns();

long M(childPositionFromParent)(const Morton *self, const long inIndexChild)
__CPROVER_requires(0 <= inIndexChild)
__CPROVER_ensures(__CPROVER_return_value == (inIndexChild & ((1L << DIM) - 1)))
__CPROVER_assigns();

long M(getChildIndexFromParent)(const Morton *self, const long inParentIndex, const long inChild)
__CPROVER_requires(0 <= inParentIndex && inParentIndex < (1L << (62 - DIM)) && 0 <= inChild && inChild < (1L << DIM))
__CPROVER_ensures(__CPROVER_return_value == ((inParentIndex << DIM) | inChild))
__CPROVER_assigns();

struct ARR M(getRelativePosFromInteractionIndex)(long inArrayPos)
__CPROVER_requires(0 <= inArrayPos && inArrayPos < POW7)
__CPROVER_ensures(spec_offsets_within(__CPROVER_return_value.d, 3))
__CPROVER_ensures(spec_code(__CPROVER_return_value.d, 7, 3) == inArrayPos)
__CPROVER_assigns();

struct ARR M(getRelativePosFromNeighborIndex)(long inArrayPos)
__CPROVER_requires(0 <= inArrayPos && inArrayPos < POW3)
__CPROVER_ensures(spec_offsets_within(__CPROVER_return_value.d, 1))
__CPROVER_ensures(spec_code(__CPROVER_return_value.d, 3, 1) == inArrayPos)
__CPROVER_assigns();

long M(getInteractionIndexFromRelativePos)(const struct ARR *pos)
__CPROVER_requires(__CPROVER_r_ok(pos, sizeof(*pos)) && spec_offsets_within(pos->d, 3))
__CPROVER_ensures(__CPROVER_return_value == spec_code(pos->d, 7, 3))
__CPROVER_ensures(0 <= __CPROVER_return_value && __CPROVER_return_value < POW7)
__CPROVER_assigns();

long M(getNeighborIndexFromRelativePos)(const struct ARR *pos)
__CPROVER_requires(__CPROVER_r_ok(pos, sizeof(*pos)) && spec_offsets_within(pos->d, 1))
__CPROVER_ensures(__CPROVER_return_value == spec_code(pos->d, 3, 1))
__CPROVER_ensures(0 <= __CPROVER_return_value && __CPROVER_return_value < POW3)
__CPROVER_assigns();

long M(getNbChildrenPerCell)(void)
__CPROVER_ensures(__CPROVER_return_value == (1L << DIM))
__CPROVER_assigns();

long M(getNbInteractionsPerCell)(void)
__CPROVER_ensures(__CPROVER_return_value == spec_ipow(6, DIM) - spec_ipow(3, DIM))
__CPROVER_assigns();

long M(getNbNeighborsPerLeaf)(void)
__CPROVER_ensures(__CPROVER_return_value == spec_ipow(3, DIM) - 1)
__CPROVER_assigns();

long M(get3PowDim)(void)
__CPROVER_ensures(__CPROVER_return_value == spec_ipow(3, DIM))
__CPROVER_assigns();

long TbfUtils__lipow(long val, const long power)
__CPROVER_requires(0 <= power && power <= 4 && 0 <= val && val <= 7)
__CPROVER_ensures(__CPROVER_return_value == spec_ipow(val, power))
__CPROVER_assigns();

#endif

/* ===================================================================================== */
#ifdef SPEC_PART_HARNESS

/*@ harness h_getUpperBound enforce=TbfMortonSpaceIndex__getUpperBound props=C11,C15 */
void h_getUpperBound(void) { Morton m; long l; M(getUpperBound)(&m, l);  CANARY(); }

/*@ harness h_getBoxLimit enforce=TbfMortonSpaceIndex__getBoxLimit props=C11,C15 */
void h_getBoxLimit(void) { Morton m; long l; M(getBoxLimit)(&m, l);  CANARY(); }

/*@ harness h_decode enforce=TbfMortonSpaceIndex__getBoxPosFromIndex unwind=LMAX+3 props=C11,C15 */
void h_decode(void) { Morton m; long i; M(getBoxPosFromIndex)(&m, i);  CANARY(); }

/*@ harness h_encode enforce=TbfMortonSpaceIndex__getIndexFromBoxPos unwind=LMAX+3 props=C11,C15 */
void h_encode(void) { Morton m; struct ARR p; M(getIndexFromBoxPos)(&m, &p);  CANARY(); }

/*@ harness h_parent enforce=TbfMortonSpaceIndex__getParentIndex props=C11,C15 */
void h_parent(void) { Morton m; long i; M(getParentIndex)(&m, i);  CANARY(); }

/*@ harness h_childpos enforce=TbfMortonSpaceIndex__childPositionFromParent props=C11,C15 */
void h_childpos(void) { Morton m; long i; M(childPositionFromParent)(&m, i);  CANARY(); }

/*@ harness h_child enforce=TbfMortonSpaceIndex__getChildIndexFromParent props=C11,C15 */
void h_child(void) { Morton m; long i, c; M(getChildIndexFromParent)(&m, i, c);  CANARY(); }

/*@ harness h_rel7 enforce=TbfMortonSpaceIndex__getRelativePosFromInteractionIndex unwind=DIM+2 props=C11,C15 */
void h_rel7(void) { long c; M(getRelativePosFromInteractionIndex)(c);  CANARY(); }

/*@ harness h_rel3 enforce=TbfMortonSpaceIndex__getRelativePosFromNeighborIndex unwind=DIM+2 props=C11,C15 */
void h_rel3(void) { long c; M(getRelativePosFromNeighborIndex)(c);  CANARY(); }

/*@ harness h_code7 enforce=TbfMortonSpaceIndex__getInteractionIndexFromRelativePos unwind=DIM+2 props=C11,C15 */
void h_code7(void) { struct ARR p; M(getInteractionIndexFromRelativePos)(&p);  CANARY(); }

/*@ harness h_code3 enforce=TbfMortonSpaceIndex__getNeighborIndexFromRelativePos unwind=DIM+2 props=C11,C15 */
void h_code3(void) { struct ARR p; M(getNeighborIndexFromRelativePos)(&p);  CANARY(); }

/*@ harness h_nbchildren enforce=TbfMortonSpaceIndex__getNbChildrenPerCell unwind=DIM+2 props=C11 */
void h_nbchildren(void) { M(getNbChildrenPerCell)();  CANARY(); }
/*@ harness h_nbinter enforce=TbfMortonSpaceIndex__getNbInteractionsPerCell unwind=DIM+2 props=C11 */
void h_nbinter(void) { M(getNbInteractionsPerCell)();  CANARY(); }
/*@ harness h_nbneigh enforce=TbfMortonSpaceIndex__getNbNeighborsPerLeaf unwind=DIM+2 props=C11 */
void h_nbneigh(void) { M(getNbNeighborsPerLeaf)();  CANARY(); }
/*@ harness h_pow3 enforce=TbfMortonSpaceIndex__get3PowDim unwind=DIM+2 props=C11 */
void h_pow3(void) { M(get3PowDim)();  CANARY(); }
/*@ harness h_lipow enforce=TbfUtils__lipow unwind=5 props=C11,C15 */
void h_lipow(void) { long v, p; TbfUtils__lipow(v, p);  CANARY(); }

/* ---- L3 lemmas over the contracts (callees replaced by their contracts) */

/*@ harness lemma_roundtrip_pos replace=TbfMortonSpaceIndex__getIndexFromBoxPos,TbfMortonSpaceIndex__getBoxPosFromIndex,TbfMortonSpaceIndex__getUpperBound unwind=LMAX+3 props=C11 */
void lemma_roundtrip_pos(void)
{
  Morton m; long level; struct ARR p;
  __CPROVER_assume(0 <= level && level <= LMAX);
  __CPROVER_assume(spec_coords_below(p.d, 1L << level));
  long i = M(getIndexFromBoxPos)(&m, &p);
  __CPROVER_assert(0 <= i && i < M(getUpperBound)(&m, level), "C11: index of an in-box cell is below the level's upper bound");
  struct ARR q = M(getBoxPosFromIndex)(&m, i);
  for(long d = 0; d < DIM; ++d) __CPROVER_assert(q.d[d] == p.d[d], "C11: decode(encode(p)) == p");
  CANARY();
}

/*@ harness lemma_roundtrip_idx replace=TbfMortonSpaceIndex__getIndexFromBoxPos,TbfMortonSpaceIndex__getBoxPosFromIndex,TbfMortonSpaceIndex__getUpperBound,TbfMortonSpaceIndex__getBoxLimit unwind=LMAX+3 props=C11 */
void lemma_roundtrip_idx(void)
{
  Morton m; long level; long i;
  __CPROVER_assume(0 <= level && level <= LMAX);
  __CPROVER_assume(0 <= i && i < M(getUpperBound)(&m, level));
  struct ARR q = M(getBoxPosFromIndex)(&m, i);
  long lim = M(getBoxLimit)(&m, level);
  for(long d = 0; d < DIM; ++d) __CPROVER_assert(0 <= q.d[d] && q.d[d] < lim, "C11: coordinates of an index below the bound lie inside the grid");
  long j = M(getIndexFromBoxPos)(&m, &q);
  __CPROVER_assert(j == i, "C11: encode(decode(i)) == i");
  CANARY();
}

/*@ harness lemma_parent_child replace=TbfMortonSpaceIndex__getBoxPosFromIndex,TbfMortonSpaceIndex__getParentIndex,TbfMortonSpaceIndex__childPositionFromParent,TbfMortonSpaceIndex__getChildIndexFromParent unwind=LMAX+3 props=C11,C02 */
void lemma_parent_child(void)
{
  Morton m; long i;
  __CPROVER_assume(0 <= i && i < IDX_LIMIT);
  struct ARR c = M(getBoxPosFromIndex)(&m, i);
  long par = M(getParentIndex)(&m, i);
  struct ARR pp = M(getBoxPosFromIndex)(&m, par);
  long code = M(childPositionFromParent)(&m, i);
  long expect = 0;
  for(long d = 0; d < DIM; ++d)
  {
    __CPROVER_assert(pp.d[d] == (c.d[d] >> 1), "C11: the parent geometrically contains the child (coordinates halve)");
    expect |= (c.d[d] & 1L) << (DIM - 1 - d);
  }
  __CPROVER_assert(code == expect, "C11/C02: child position code is the octant (low coordinate bits, dimension 0 most significant)");
  __CPROVER_assert(0 <= code && code < (1L << DIM), "C11: child code in range");
  __CPROVER_assert(M(getChildIndexFromParent)(&m, par, code) == i, "C11: child(parent(i), code(i)) == i");
  CANARY();
}

/*@ harness lemma_codes replace=TbfMortonSpaceIndex__getRelativePosFromInteractionIndex,TbfMortonSpaceIndex__getInteractionIndexFromRelativePos,TbfMortonSpaceIndex__getRelativePosFromNeighborIndex,TbfMortonSpaceIndex__getNeighborIndexFromRelativePos unwind=DIM+2 props=C11 */
void lemma_codes(void)
{
  long c7; __CPROVER_assume(0 <= c7 && c7 < POW7);
  struct ARR r7 = M(getRelativePosFromInteractionIndex)(c7);
  __CPROVER_assert(M(getInteractionIndexFromRelativePos)(&r7) == c7, "C11: encode7(decode7(c)) == c");
  struct ARR p7; __CPROVER_assume(spec_offsets_within(p7.d, 3));
  long e7 = M(getInteractionIndexFromRelativePos)(&p7);
  struct ARR q7 = M(getRelativePosFromInteractionIndex)(e7);
  for(long d = 0; d < DIM; ++d) __CPROVER_assert(q7.d[d] == p7.d[d], "C11: decode7(encode7(p)) == p");
  long c3; __CPROVER_assume(0 <= c3 && c3 < POW3);
  struct ARR r3 = M(getRelativePosFromNeighborIndex)(c3);
  __CPROVER_assert(M(getNeighborIndexFromRelativePos)(&r3) == c3, "C11: encode3(decode3(c)) == c");
  struct ARR p3; __CPROVER_assume(spec_offsets_within(p3.d, 1));
  long e3 = M(getNeighborIndexFromRelativePos)(&p3);
  struct ARR q3 = M(getRelativePosFromNeighborIndex)(e3);
  for(long d = 0; d < DIM; ++d) __CPROVER_assert(q3.d[d] == p3.d[d], "C11: decode3(encode3(p)) == p");
  CANARY();
}

#endif
