/* stl_model.h - C model of the libstdc++ containers the extracted code uses.
 * TRUSTED BASE: this file is hand written; it models std::vector<T> as a heap array with a
 * ghost length.  Capacity is fixed (VEC_CAP, overridable per unit); exceeding it is an
 * assertion failure, never silent.  Units that need the "witness vector" abstraction
 * define STD_VECTOR_TYPE/STD_VECTOR_FUNCS themselves before including this file. */
#ifndef VERIF_STL_MODEL_H
#define VERIF_STL_MODEL_H
#ifndef VEC_CAP
#define VEC_CAP 8
#endif
#ifndef STD_VECTOR_TYPE
#define STD_VECTOR_TYPE(NAME, T) \
  struct NAME { T *data; unsigned long size; unsigned long cap; }; \
  static inline void NAME##__ctor(struct NAME *v) { v->data = (T*)malloc(sizeof(T) * VEC_CAP); __CPROVER_assume(v->data != 0); v->size = 0; v->cap = VEC_CAP; } \
  static inline unsigned long NAME##__size(const struct NAME *v) { return v->size; } \
  static inline _Bool NAME##__empty(const struct NAME *v) { return v->size == 0; } \
  static inline void NAME##__clear(struct NAME *v) { v->size = 0; } \
  static inline void NAME##__reserve(struct NAME *v, unsigned long n) { (void)v; (void)n; } \
  static inline T *NAME##__at(const struct NAME *v, unsigned long i) { __CPROVER_assert(i < v->size, "std::vector index in range"); return &v->data[i]; } \
  static inline T *NAME##__front(const struct NAME *v) { __CPROVER_assert(0 < v->size, "std::vector front on non-empty"); return &v->data[0]; } \
  static inline T *NAME##__back(const struct NAME *v) { __CPROVER_assert(0 < v->size, "std::vector back on non-empty"); return &v->data[v->size - 1]; } \
  static inline T *NAME##__begin(const struct NAME *v) { return v->data; } \
  static inline T *NAME##__end(const struct NAME *v) { return v->data + v->size; } \
  static inline T *NAME##__data(const struct NAME *v) { return v->data; } \
  static inline void NAME##__push_back(struct NAME *v, const T *x) { __CPROVER_assert(v->size < v->cap, "model: std::vector capacity VEC_CAP sufficient"); v->data[v->size] = *x; v->size++; }
#endif
#endif
