/* stl_model.h - C model of the libstdc++ containers the extracted code uses.
 * TRUSTED BASE: this file is hand written; it models std::vector<T> as a heap array with a
 * ghost length.  Capacity is fixed (VEC_CAP, overridable per unit); exceeding it is an
 * assertion failure, never silent.  Units that need the "witness vector" abstraction
 * define STD_VECTOR_TYPE/STD_VECTOR_FUNCS themselves before including this file. */
#ifndef VERIF_STL_MODEL_H
#define VERIF_STL_MODEL_H
#ifndef VEC_CAP
#define VEC_CAP 8
#endif
#ifndef STD_VECTOR_TYPE
#define STD_VECTOR_TYPE(NAME, T) \
  struct NAME { T *data; unsigned long size; unsigned long cap; }; \
  static inline void NAME##__ctor(struct NAME *v) { v->data = (T*)malloc(sizeof(T) * VEC_CAP); __CPROVER_assume(v->data != 0); v->size = 0; v->cap = VEC_CAP; } \
  static inline void NAME##__ctor_n(struct NAME *v, unsigned long n) { v->data = (T*)malloc(sizeof(T) * VEC_CAP); v->cap = VEC_CAP; __CPROVER_assert(n <= VEC_CAP, "model: std::vector capacity VEC_CAP sufficient"); if(n > 0) __builtin_memset(&v->data[0], 0, n * sizeof(T)); v->size = n; } \
  static inline unsigned long NAME##__size(const struct NAME *v) { return v->size; } \
  static inline _Bool NAME##__empty(const struct NAME *v) { return v->size == 0; } \
  static inline void NAME##__clear(struct NAME *v) { v->size = 0; } \
  static inline void NAME##__reserve(struct NAME *v, unsigned long n) { (void)v; (void)n; } \
  static inline T *NAME##__at(const struct NAME *v, unsigned long i) { __CPROVER_assert(i < v->size, "std::vector index in range"); return &v->data[i]; } \
  static inline T *NAME##__front(const struct NAME *v) { __CPROVER_assert(0 < v->size, "std::vector front on non-empty"); return &v->data[0]; } \
  static inline T *NAME##__back(const struct NAME *v) { __CPROVER_assert(0 < v->size, "std::vector back on non-empty"); return &v->data[v->size - 1]; } \
  static inline T *NAME##__begin(const struct NAME *v) { return v->data; } \
  static inline T *NAME##__end(const struct NAME *v) { return v->data + v->size; } \
  static inline T *NAME##__data(const struct NAME *v) { return v->data; } \
  static inline void NAME##__push_back(struct NAME *v, const T *x) { if(!v->data) { v->data = (T*)malloc(sizeof(T) * VEC_CAP); v->cap = VEC_CAP; } __CPROVER_assert(v->size < v->cap, "model: std::vector capacity VEC_CAP sufficient"); v->data[v->size] = *x; v->size++; } \
  static inline void NAME##__insert_range(struct NAME *v, T *pos, const T *first, const T *last) { __CPROVER_assert(pos == v->data + v->size, "model: std::vector::insert(range) is supported at end() only"); for(const T *_p = first; _p != last; ++_p) NAME##__push_back(v, _p); } \
  static inline T *NAME##__emplace_slot(struct NAME *v) { if(!v->data) { v->data = (T*)malloc(sizeof(T) * VEC_CAP); v->cap = VEC_CAP; } __CPROVER_assert(v->size < v->cap, "model: std::vector capacity VEC_CAP sufficient"); __builtin_memset(&v->data[v->size], 0, sizeof(T)); v->size++; return &v->data[v->size - 1]; } \
  static inline void NAME##__resize(struct NAME *v, unsigned long n) { if(!v->data) { v->data = (T*)malloc(sizeof(T) * VEC_CAP); v->cap = VEC_CAP; } __CPROVER_assert(n <= v->cap, "model: std::vector capacity VEC_CAP sufficient"); if(n > v->size) __builtin_memset(&v->data[v->size], 0, (n - v->size) * sizeof(T)); v->size = n; }
#endif
/* models of std::sort / std::lower_bound / std::upper_bound over pointer iterators (trusted, hand written).
 * CMP(closure, a, b) is a generated adapter around the real comparator. */
#define STD_SORT(T, first, last, CMP, clos) do { T *_sf = (first); T *_sl = (last); const void *_sc = (clos); \
    for(T *_si = _sf + 1; _si < _sl; ++_si) { T _key = *_si; T *_sj = _si; \
      while(_sj > _sf && CMP(_sc, &_key, _sj - 1)) { *_sj = *(_sj - 1); --_sj; } *_sj = _key; } } while(0)
#define STD_LOWER_BOUND(T, first, last, valp, CMP, clos) ({ T *_lf = (first); long _ln = (last) - _lf; const void *_lc = (clos); \
    while(_ln > 0) { long _lh = _ln / 2; T *_lm = _lf + _lh; if(CMP(_lc, _lm, (valp))) { _lf = _lm + 1; _ln -= _lh + 1; } else _ln = _lh; } _lf; })
#define STD_UPPER_BOUND(T, first, last, valp, CMP, clos) ({ T *_uf = (first); long _un = (last) - _uf; const void *_uc = (clos); \
    while(_un > 0) { long _uh = _un / 2; T *_um = _uf + _uh; if(!CMP(_uc, (valp), _um)) { _uf = _um + 1; _un -= _uh + 1; } else _un = _uh; } _uf; })
/* std::set<T> of scalars: bounded array, linear search (only insert / size / empty / clear are used) */
#ifndef VERIF_SET_MODEL_DEFINED
#ifndef SET_CAP
#define SET_CAP 8
#endif
#define STD_SET_TYPE(NAME, T) struct NAME { T data[SET_CAP]; unsigned long size; }; \
  static inline void NAME##__insert(struct NAME *v, T x) { for(unsigned long _i = 0; _i < SET_CAP; ++_i) if(_i < v->size && v->data[_i] == x) return; __CPROVER_assert(v->size < SET_CAP, "model: std::set capacity SET_CAP sufficient"); v->data[v->size] = x; v->size++; } \
  static inline unsigned long NAME##__size(const struct NAME *v) { return v->size; } \
  static inline _Bool NAME##__empty(const struct NAME *v) { return v->size == 0; } \
  static inline void NAME##__clear(struct NAME *v) { v->size = 0; }
#endif
#endif
