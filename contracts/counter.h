/* counter.h - contracts for TbfInteractionCounter<Base> (src/kernels/counterkernels/tbfinteractioncounter.hpp), C18.
 * The wrapped kernel is abstract; its model B_* records its arguments in ghost state so that "forwards its
 * arguments unchanged, exactly once" is a postcondition.  All functions are loop free: the proofs are complete.
 * (generated once by a helper, then hand edited; the contracts are the specification, not the code) */
#ifdef SPEC_PART_MODEL
#include "prelude.h"
#include "stl_model.h"
#endif
#ifdef SPEC_PART_CONTRACTS
#define CBOUND (1L << 30)
#define COUNTERS_BOUNDED(c) (0 <= (c)->P2M && (c)->P2M <= (1L << 61) && 0 <= (c)->M2M && (c)->M2M <= (1L << 61) && 0 <= (c)->M2L && (c)->M2L <= (1L << 61) && 0 <= (c)->L2L && (c)->L2L <= (1L << 61) && 0 <= (c)->L2P && (c)->L2P <= (1L << 61) && 0 <= (c)->P2P && (c)->P2P <= (1L << 61) && 0 <= (c)->P2PInner && (c)->P2PInner <= (1L << 61))
long gb_calls; int gb_op; const void *gb_p[11]; long gb_v[11]; const void *gb_self;
void B_P2M(struct VerifBase *self, const struct VerifSymb *a0, const long *a1, const struct std_array_cdouble_p_2 *a2, const long a3, struct VerifMultipole *a4)
{ gb_calls++; gb_op = 1; gb_self = self; gb_p[0] = a0; gb_p[1] = a1; gb_p[2] = a2; gb_v[3] = a3; gb_p[4] = a4; }
void B_M2M(struct VerifBase *self, const struct VerifSymb *a0, const long a1, const struct std_vector_cVerifMultipole_p *a2, struct VerifMultipole *a3, const long *a4, const long a5)
{ gb_calls++; gb_op = 2; gb_self = self; gb_p[0] = a0; gb_v[1] = a1; gb_p[2] = a2; gb_p[3] = a3; gb_p[4] = a4; gb_v[5] = a5; }
void B_M2L(struct VerifBase *self, const struct VerifSymb *a0, const long a1, const struct std_vector_cVerifMultipole_p *a2, const long *a3, const long a4, struct VerifLocal *a5)
{ gb_calls++; gb_op = 3; gb_self = self; gb_p[0] = a0; gb_v[1] = a1; gb_p[2] = a2; gb_p[3] = a3; gb_v[4] = a4; gb_p[5] = a5; }
void B_L2L(struct VerifBase *self, const struct VerifSymb *a0, const long a1, const struct VerifLocal *a2, struct std_vector_VerifLocal_p *a3, const long *a4, const long a5)
{ gb_calls++; gb_op = 4; gb_self = self; gb_p[0] = a0; gb_v[1] = a1; gb_p[2] = a2; gb_p[3] = a3; gb_p[4] = a4; gb_v[5] = a5; }
void B_L2P(struct VerifBase *self, const struct VerifSymb *a0, const struct VerifLocal *a1, const long *a2, const struct std_array_cdouble_p_2 *a3, struct std_array_long_p_1 *a4, const long a5)
{ gb_calls++; gb_op = 5; gb_self = self; gb_p[0] = a0; gb_p[1] = a1; gb_p[2] = a2; gb_p[3] = a3; gb_p[4] = a4; gb_v[5] = a5; }
void B_P2P(struct VerifBase *self, const struct VerifSymb *a0, const long *a1, const struct std_array_cdouble_p_2 *a2, struct std_array_long_p_1 *a3, const long a4, const struct VerifSymb *a5, const long *a6, const struct std_array_cdouble_p_2 *a7, struct std_array_long_p_1 *a8, const long a9, const long a10)
{ gb_calls++; gb_op = 6; gb_self = self; gb_p[0] = a0; gb_p[1] = a1; gb_p[2] = a2; gb_p[3] = a3; gb_v[4] = a4; gb_p[5] = a5; gb_p[6] = a6; gb_p[7] = a7; gb_p[8] = a8; gb_v[9] = a9; gb_v[10] = a10; }
void B_P2PTsm(struct VerifBase *self, const struct VerifSymb *a0, const long *a1, const struct std_array_cdouble_p_2 *a2, const long a3, const struct VerifSymb *a4, const long *a5, const struct std_array_cdouble_p_2 *a6, struct std_array_long_p_1 *a7, const long a8, const long a9)
{ gb_calls++; gb_op = 7; gb_self = self; gb_p[0] = a0; gb_p[1] = a1; gb_p[2] = a2; gb_v[3] = a3; gb_p[4] = a4; gb_p[5] = a5; gb_p[6] = a6; gb_p[7] = a7; gb_v[8] = a8; gb_v[9] = a9; }
void B_P2PInner(struct VerifBase *self, const struct VerifSymb *a0, const long *a1, const struct std_array_cdouble_p_2 *a2, struct std_array_long_p_1 *a3, const long a4)
{ gb_calls++; gb_op = 8; gb_self = self; gb_p[0] = a0; gb_p[1] = a1; gb_p[2] = a2; gb_p[3] = a3; gb_v[4] = a4; }
void C_P2M(struct Counter *self, const struct VerifSymb *a0, const long *a1, const struct std_array_cdouble_p_2 *a2, const long a3, struct VerifMultipole *a4)
__CPROVER_requires(__CPROVER_w_ok(self, sizeof(*self)) && gb_calls == 0 && 0 <= self->counters.P2M && self->counters.P2M <= (1L << 61))
__CPROVER_ensures(self->counters.P2M == __CPROVER_old(self->counters.P2M) + (1))
__CPROVER_ensures(self->counters.M2M == __CPROVER_old(self->counters.M2M) && self->counters.M2L == __CPROVER_old(self->counters.M2L) && self->counters.L2L == __CPROVER_old(self->counters.L2L) && self->counters.L2P == __CPROVER_old(self->counters.L2P) && self->counters.P2P == __CPROVER_old(self->counters.P2P) && self->counters.P2PInner == __CPROVER_old(self->counters.P2PInner))
__CPROVER_ensures(gb_calls == 1 && gb_op == 1 && gb_self == (const void *)&self->_base && gb_p[0] == (const void *)a0 && gb_p[1] == (const void *)a1 && gb_p[2] == (const void *)a2 && gb_v[3] == a3 && gb_p[4] == (const void *)a4)
__CPROVER_assigns(self->counters.P2M, gb_calls, gb_op, gb_self, __CPROVER_object_whole(gb_p), __CPROVER_object_whole(gb_v));
void C_M2M(struct Counter *self, const struct VerifSymb *a0, const long a1, const struct std_vector_cVerifMultipole_p *a2, struct VerifMultipole *a3, const long *a4, const long a5)
__CPROVER_requires(__CPROVER_w_ok(self, sizeof(*self)) && gb_calls == 0 && 0 <= self->counters.M2M && self->counters.M2M <= (1L << 61) && 0 <= a5 && a5 <= CBOUND)
__CPROVER_ensures(self->counters.M2M == __CPROVER_old(self->counters.M2M) + (a5))
__CPROVER_ensures(self->counters.P2M == __CPROVER_old(self->counters.P2M) && self->counters.M2L == __CPROVER_old(self->counters.M2L) && self->counters.L2L == __CPROVER_old(self->counters.L2L) && self->counters.L2P == __CPROVER_old(self->counters.L2P) && self->counters.P2P == __CPROVER_old(self->counters.P2P) && self->counters.P2PInner == __CPROVER_old(self->counters.P2PInner))
__CPROVER_ensures(gb_calls == 1 && gb_op == 2 && gb_self == (const void *)&self->_base && gb_p[0] == (const void *)a0 && gb_v[1] == a1 && gb_p[2] == (const void *)a2 && gb_p[3] == (const void *)a3 && gb_p[4] == (const void *)a4 && gb_v[5] == a5)
__CPROVER_assigns(self->counters.M2M, gb_calls, gb_op, gb_self, __CPROVER_object_whole(gb_p), __CPROVER_object_whole(gb_v));
void C_M2L(struct Counter *self, const struct VerifSymb *a0, const long a1, const struct std_vector_cVerifMultipole_p *a2, const long *a3, const long a4, struct VerifLocal *a5)
__CPROVER_requires(__CPROVER_w_ok(self, sizeof(*self)) && gb_calls == 0 && 0 <= self->counters.M2L && self->counters.M2L <= (1L << 61) && 0 <= a4 && a4 <= CBOUND)
__CPROVER_ensures(self->counters.M2L == __CPROVER_old(self->counters.M2L) + (a4))
__CPROVER_ensures(self->counters.P2M == __CPROVER_old(self->counters.P2M) && self->counters.M2M == __CPROVER_old(self->counters.M2M) && self->counters.L2L == __CPROVER_old(self->counters.L2L) && self->counters.L2P == __CPROVER_old(self->counters.L2P) && self->counters.P2P == __CPROVER_old(self->counters.P2P) && self->counters.P2PInner == __CPROVER_old(self->counters.P2PInner))
__CPROVER_ensures(gb_calls == 1 && gb_op == 3 && gb_self == (const void *)&self->_base && gb_p[0] == (const void *)a0 && gb_v[1] == a1 && gb_p[2] == (const void *)a2 && gb_p[3] == (const void *)a3 && gb_v[4] == a4 && gb_p[5] == (const void *)a5)
__CPROVER_assigns(self->counters.M2L, gb_calls, gb_op, gb_self, __CPROVER_object_whole(gb_p), __CPROVER_object_whole(gb_v));
void C_L2L(struct Counter *self, const struct VerifSymb *a0, const long a1, const struct VerifLocal *a2, struct std_vector_VerifLocal_p *a3, const long *a4, const long a5)
__CPROVER_requires(__CPROVER_w_ok(self, sizeof(*self)) && gb_calls == 0 && 0 <= self->counters.L2L && self->counters.L2L <= (1L << 61) && 0 <= a5 && a5 <= CBOUND)
__CPROVER_ensures(self->counters.L2L == __CPROVER_old(self->counters.L2L) + (a5))
__CPROVER_ensures(self->counters.P2M == __CPROVER_old(self->counters.P2M) && self->counters.M2M == __CPROVER_old(self->counters.M2M) && self->counters.M2L == __CPROVER_old(self->counters.M2L) && self->counters.L2P == __CPROVER_old(self->counters.L2P) && self->counters.P2P == __CPROVER_old(self->counters.P2P) && self->counters.P2PInner == __CPROVER_old(self->counters.P2PInner))
__CPROVER_ensures(gb_calls == 1 && gb_op == 4 && gb_self == (const void *)&self->_base && gb_p[0] == (const void *)a0 && gb_v[1] == a1 && gb_p[2] == (const void *)a2 && gb_p[3] == (const void *)a3 && gb_p[4] == (const void *)a4 && gb_v[5] == a5)
__CPROVER_assigns(self->counters.L2L, gb_calls, gb_op, gb_self, __CPROVER_object_whole(gb_p), __CPROVER_object_whole(gb_v));
void C_L2P(struct Counter *self, const struct VerifSymb *a0, const struct VerifLocal *a1, const long *a2, const struct std_array_cdouble_p_2 *a3, struct std_array_long_p_1 *a4, const long a5)
__CPROVER_requires(__CPROVER_w_ok(self, sizeof(*self)) && gb_calls == 0 && 0 <= self->counters.L2P && self->counters.L2P <= (1L << 61))
__CPROVER_ensures(self->counters.L2P == __CPROVER_old(self->counters.L2P) + (1))
__CPROVER_ensures(self->counters.P2M == __CPROVER_old(self->counters.P2M) && self->counters.M2M == __CPROVER_old(self->counters.M2M) && self->counters.M2L == __CPROVER_old(self->counters.M2L) && self->counters.L2L == __CPROVER_old(self->counters.L2L) && self->counters.P2P == __CPROVER_old(self->counters.P2P) && self->counters.P2PInner == __CPROVER_old(self->counters.P2PInner))
__CPROVER_ensures(gb_calls == 1 && gb_op == 5 && gb_self == (const void *)&self->_base && gb_p[0] == (const void *)a0 && gb_p[1] == (const void *)a1 && gb_p[2] == (const void *)a2 && gb_p[3] == (const void *)a3 && gb_p[4] == (const void *)a4 && gb_v[5] == a5)
__CPROVER_assigns(self->counters.L2P, gb_calls, gb_op, gb_self, __CPROVER_object_whole(gb_p), __CPROVER_object_whole(gb_v));
void C_P2P(struct Counter *self, const struct VerifSymb *a0, const long *a1, const struct std_array_cdouble_p_2 *a2, struct std_array_long_p_1 *a3, const long a4, const struct VerifSymb *a5, const long *a6, const struct std_array_cdouble_p_2 *a7, struct std_array_long_p_1 *a8, const long a9, const long a10)
__CPROVER_requires(__CPROVER_w_ok(self, sizeof(*self)) && gb_calls == 0 && 0 <= self->counters.P2P && self->counters.P2P <= (1L << 61) && 0 <= a4 && a4 <= CBOUND && 0 <= a9 && a9 <= CBOUND)
__CPROVER_ensures(self->counters.P2P == __CPROVER_old(self->counters.P2P) + (a4 * a9))
__CPROVER_ensures(self->counters.P2M == __CPROVER_old(self->counters.P2M) && self->counters.M2M == __CPROVER_old(self->counters.M2M) && self->counters.M2L == __CPROVER_old(self->counters.M2L) && self->counters.L2L == __CPROVER_old(self->counters.L2L) && self->counters.L2P == __CPROVER_old(self->counters.L2P) && self->counters.P2PInner == __CPROVER_old(self->counters.P2PInner))
__CPROVER_ensures(gb_calls == 1 && gb_op == 6 && gb_self == (const void *)&self->_base && gb_p[0] == (const void *)a0 && gb_p[1] == (const void *)a1 && gb_p[2] == (const void *)a2 && gb_p[3] == (const void *)a3 && gb_v[4] == a4 && gb_p[5] == (const void *)a5 && gb_p[6] == (const void *)a6 && gb_p[7] == (const void *)a7 && gb_p[8] == (const void *)a8 && gb_v[9] == a9 && gb_v[10] == a10)
__CPROVER_assigns(self->counters.P2P, gb_calls, gb_op, gb_self, __CPROVER_object_whole(gb_p), __CPROVER_object_whole(gb_v));
void C_P2PTsm(struct Counter *self, const struct VerifSymb *a0, const long *a1, const struct std_array_cdouble_p_2 *a2, const long a3, const struct VerifSymb *a4, const long *a5, const struct std_array_cdouble_p_2 *a6, struct std_array_long_p_1 *a7, const long a8, const long a9)
__CPROVER_requires(__CPROVER_w_ok(self, sizeof(*self)) && gb_calls == 0 && 0 <= self->counters.P2P && self->counters.P2P <= (1L << 61) && 0 <= a3 && a3 <= CBOUND && 0 <= a8 && a8 <= CBOUND)
__CPROVER_ensures(self->counters.P2P == __CPROVER_old(self->counters.P2P) + (a3 * a8))
__CPROVER_ensures(self->counters.P2M == __CPROVER_old(self->counters.P2M) && self->counters.M2M == __CPROVER_old(self->counters.M2M) && self->counters.M2L == __CPROVER_old(self->counters.M2L) && self->counters.L2L == __CPROVER_old(self->counters.L2L) && self->counters.L2P == __CPROVER_old(self->counters.L2P) && self->counters.P2PInner == __CPROVER_old(self->counters.P2PInner))
__CPROVER_ensures(gb_calls == 1 && gb_op == 7 && gb_self == (const void *)&self->_base && gb_p[0] == (const void *)a0 && gb_p[1] == (const void *)a1 && gb_p[2] == (const void *)a2 && gb_v[3] == a3 && gb_p[4] == (const void *)a4 && gb_p[5] == (const void *)a5 && gb_p[6] == (const void *)a6 && gb_p[7] == (const void *)a7 && gb_v[8] == a8 && gb_v[9] == a9)
__CPROVER_assigns(self->counters.P2P, gb_calls, gb_op, gb_self, __CPROVER_object_whole(gb_p), __CPROVER_object_whole(gb_v));
void C_P2PInner(struct Counter *self, const struct VerifSymb *a0, const long *a1, const struct std_array_cdouble_p_2 *a2, struct std_array_long_p_1 *a3, const long a4)
__CPROVER_requires(__CPROVER_w_ok(self, sizeof(*self)) && gb_calls == 0 && 0 <= self->counters.P2PInner && self->counters.P2PInner <= (1L << 61) && 0 <= a4 && a4 <= CBOUND)
__CPROVER_ensures(self->counters.P2PInner == __CPROVER_old(self->counters.P2PInner) + (a4 * a4 - a4))
__CPROVER_ensures(self->counters.P2M == __CPROVER_old(self->counters.P2M) && self->counters.M2M == __CPROVER_old(self->counters.M2M) && self->counters.M2L == __CPROVER_old(self->counters.M2L) && self->counters.L2L == __CPROVER_old(self->counters.L2L) && self->counters.L2P == __CPROVER_old(self->counters.L2P) && self->counters.P2P == __CPROVER_old(self->counters.P2P))
__CPROVER_ensures(gb_calls == 1 && gb_op == 8 && gb_self == (const void *)&self->_base && gb_p[0] == (const void *)a0 && gb_p[1] == (const void *)a1 && gb_p[2] == (const void *)a2 && gb_p[3] == (const void *)a3 && gb_v[4] == a4)
__CPROVER_assigns(self->counters.P2PInner, gb_calls, gb_op, gb_self, __CPROVER_object_whole(gb_p), __CPROVER_object_whole(gb_v));
struct Counters Counters__Reduce(const struct Counters *inOther1, const struct Counters *inOther2)
__CPROVER_requires(__CPROVER_r_ok(inOther1, sizeof(*inOther1)) && __CPROVER_r_ok(inOther2, sizeof(*inOther2)))
__CPROVER_requires(COUNTERS_BOUNDED(inOther1) && COUNTERS_BOUNDED(inOther2))
__CPROVER_ensures(__CPROVER_return_value.P2M == inOther1->P2M + inOther2->P2M)
__CPROVER_ensures(__CPROVER_return_value.M2M == inOther1->M2M + inOther2->M2M)
__CPROVER_ensures(__CPROVER_return_value.M2L == inOther1->M2L + inOther2->M2L)
__CPROVER_ensures(__CPROVER_return_value.L2L == inOther1->L2L + inOther2->L2L)
__CPROVER_ensures(__CPROVER_return_value.L2P == inOther1->L2P + inOther2->L2P)
__CPROVER_ensures(__CPROVER_return_value.P2P == inOther1->P2P + inOther2->P2P)
__CPROVER_ensures(__CPROVER_return_value.P2PInner == inOther1->P2PInner + inOther2->P2PInner)
__CPROVER_assigns();

void Counter__reset(struct Counter *self)
__CPROVER_requires(__CPROVER_w_ok(self, sizeof(*self)))
__CPROVER_ensures(self->counters.P2M == 0 && self->counters.M2M == 0 && self->counters.M2L == 0 && self->counters.L2L == 0 && self->counters.L2P == 0 && self->counters.P2P == 0 && self->counters.P2PInner == 0)
__CPROVER_assigns(self->counters);

const struct Counters *Counter__getReduceData(const struct Counter *self)
__CPROVER_requires(__CPROVER_r_ok(self, sizeof(*self)))
__CPROVER_ensures(__CPROVER_return_value == &self->counters)
__CPROVER_assigns();
#endif
#ifdef SPEC_PART_HARNESS
/*@ harness h_c_P2M enforce=C_P2M props=C18,C15 */
void h_c_P2M(void) { struct Counter k; struct VerifSymb o_a0; long o_a1; struct std_array_cdouble_p_2 o_a2; long a3; struct VerifMultipole o_a4; gb_calls = 0; C_P2M(&k, &o_a0, &o_a1, &o_a2, a3, &o_a4); CANARY(); }
/*@ harness h_c_M2M enforce=C_M2M props=C18,C15 */
void h_c_M2M(void) { struct Counter k; struct VerifSymb o_a0; long a1; struct std_vector_cVerifMultipole_p o_a2; struct VerifMultipole o_a3; long o_a4; long a5; gb_calls = 0; C_M2M(&k, &o_a0, a1, &o_a2, &o_a3, &o_a4, a5); CANARY(); }
/*@ harness h_c_M2L enforce=C_M2L props=C18,C15 */
void h_c_M2L(void) { struct Counter k; struct VerifSymb o_a0; long a1; struct std_vector_cVerifMultipole_p o_a2; long o_a3; long a4; struct VerifLocal o_a5; gb_calls = 0; C_M2L(&k, &o_a0, a1, &o_a2, &o_a3, a4, &o_a5); CANARY(); }
/*@ harness h_c_L2L enforce=C_L2L props=C18,C15 */
void h_c_L2L(void) { struct Counter k; struct VerifSymb o_a0; long a1; struct VerifLocal o_a2; struct std_vector_VerifLocal_p o_a3; long o_a4; long a5; gb_calls = 0; C_L2L(&k, &o_a0, a1, &o_a2, &o_a3, &o_a4, a5); CANARY(); }
/*@ harness h_c_L2P enforce=C_L2P props=C18,C15 */
void h_c_L2P(void) { struct Counter k; struct VerifSymb o_a0; struct VerifLocal o_a1; long o_a2; struct std_array_cdouble_p_2 o_a3; struct std_array_long_p_1 o_a4; long a5; gb_calls = 0; C_L2P(&k, &o_a0, &o_a1, &o_a2, &o_a3, &o_a4, a5); CANARY(); }
/*@ harness h_c_P2P enforce=C_P2P props=C18,C15 */
void h_c_P2P(void) { struct Counter k; struct VerifSymb o_a0; long o_a1; struct std_array_cdouble_p_2 o_a2; struct std_array_long_p_1 o_a3; long a4; struct VerifSymb o_a5; long o_a6; struct std_array_cdouble_p_2 o_a7; struct std_array_long_p_1 o_a8; long a9; long a10; gb_calls = 0; C_P2P(&k, &o_a0, &o_a1, &o_a2, &o_a3, a4, &o_a5, &o_a6, &o_a7, &o_a8, a9, a10); CANARY(); }
/*@ harness h_c_P2PTsm enforce=C_P2PTsm props=C18,C15 */
void h_c_P2PTsm(void) { struct Counter k; struct VerifSymb o_a0; long o_a1; struct std_array_cdouble_p_2 o_a2; long a3; struct VerifSymb o_a4; long o_a5; struct std_array_cdouble_p_2 o_a6; struct std_array_long_p_1 o_a7; long a8; long a9; gb_calls = 0; C_P2PTsm(&k, &o_a0, &o_a1, &o_a2, a3, &o_a4, &o_a5, &o_a6, &o_a7, a8, a9); CANARY(); }
/*@ harness h_c_P2PInner enforce=C_P2PInner props=C18,C15 */
void h_c_P2PInner(void) { struct Counter k; struct VerifSymb o_a0; long o_a1; struct std_array_cdouble_p_2 o_a2; struct std_array_long_p_1 o_a3; long a4; gb_calls = 0; C_P2PInner(&k, &o_a0, &o_a1, &o_a2, &o_a3, a4); CANARY(); }
/*@ harness h_reduce enforce=Counters__Reduce props=C18,C15 */
void h_reduce(void) { struct Counters a, b; Counters__Reduce(&a, &b); CANARY(); }
/*@ harness h_reset enforce=Counter__reset props=C18,C15 */
void h_reset(void) { struct Counter k; Counter__reset(&k); CANARY(); }
/*@ harness h_getdata enforce=Counter__getReduceData props=C18,C15 */
void h_getdata(void) { struct Counter k; Counter__getReduceData(&k); CANARY(); }
/* merge order of per-worker counters is irrelevant: Reduce is commutative and associative (over its contract) */
/*@ harness lemma_reduce_ac replace=Counters__Reduce props=C18 */
void lemma_reduce_ac(void)
{
  struct Counters a, b, c;
  __CPROVER_assume(COUNTERS_BOUNDED(&a) && COUNTERS_BOUNDED(&b) && COUNTERS_BOUNDED(&c));
  __CPROVER_assume(a.P2M <= CBOUND && b.P2M <= CBOUND && c.P2M <= CBOUND && a.M2M <= CBOUND && b.M2M <= CBOUND && c.M2M <= CBOUND && a.M2L <= CBOUND && b.M2L <= CBOUND && c.M2L <= CBOUND);
  __CPROVER_assume(a.L2L <= CBOUND && b.L2L <= CBOUND && c.L2L <= CBOUND && a.L2P <= CBOUND && b.L2P <= CBOUND && c.L2P <= CBOUND && a.P2P <= CBOUND && b.P2P <= CBOUND && c.P2P <= CBOUND && a.P2PInner <= CBOUND && b.P2PInner <= CBOUND && c.P2PInner <= CBOUND);
  struct Counters ab = Counters__Reduce(&a, &b), ba = Counters__Reduce(&b, &a);
  struct Counters ab_c = Counters__Reduce(&ab, &c), bc = Counters__Reduce(&b, &c);
  struct Counters a_bc = Counters__Reduce(&a, &bc);
  __CPROVER_assert(ab.P2M == ba.P2M && ab_c.P2M == a_bc.P2M, "C18: merging per-worker counters is order independent");
  __CPROVER_assert(ab.M2M == ba.M2M && ab_c.M2M == a_bc.M2M, "C18: merging per-worker counters is order independent");
  __CPROVER_assert(ab.M2L == ba.M2L && ab_c.M2L == a_bc.M2L, "C18: merging per-worker counters is order independent");
  __CPROVER_assert(ab.L2L == ba.L2L && ab_c.L2L == a_bc.L2L, "C18: merging per-worker counters is order independent");
  __CPROVER_assert(ab.L2P == ba.L2P && ab_c.L2P == a_bc.L2P, "C18: merging per-worker counters is order independent");
  __CPROVER_assert(ab.P2P == ba.P2P && ab_c.P2P == a_bc.P2P, "C18: merging per-worker counters is order independent");
  __CPROVER_assert(ab.P2PInner == ba.P2PInner && ab_c.P2PInner == a_bc.P2PInner, "C18: merging per-worker counters is order independent");
  CANARY();
}
#endif
