/* lists.h - interaction / neighbour list builders of TbfMortonSpaceIndex (src/spacial/tbfmortonspaceindex.hpp:146-655)
 * C11 (L2), C10(a), C02, C15.
 * BOUNDED STAND-IN: the builders are generic in the dimension; here the real extracted bodies are executed
 * with complete unwinding for DIM in {1,2}, every level <= LMAX, every cell of the level, every relative
 * offset, groups of <= 2 cells (every pair of indices), both filters.  DIM 3 and 4 are not covered by this check.
 * The specification is the property's: the interaction list of c is { c+d : c+d in the box (wrapped when
 * periodic), parent(c+d) adjacent-or-equal to parent(c), max|d_i| >= 2 }, each tagged with the base-7 code of d;
 * the neighbour list is { c+d : max|d_i| == 1 }, tagged with the base-3 code, optionally only the upper half. */
#ifdef SPEC_PART_MODEL
#include "prelude.h"
#ifndef VEC_CAP
#define VEC_CAP 60
#endif
#include "stl_model.h"
#define CAT_(a, b) a##b
#define CAT(a, b) CAT_(a, b)
#define ARRL CAT(std_array_long_, DIM)
#endif

#ifdef SPEC_PART_CONTRACTS
typedef struct TbfMortonSpaceIndex Morton;
typedef struct TbfCellsContainer CellGroup;
typedef struct TbfParticlesContainer PartGroup;
typedef struct TbfXtoXInteraction Inter;
#include "morton_l0.h"

/* group accessors used by the per-group builders: implementations that ARE their contracts (contracts/groups.h,
 * enforced on the real bodies in unit `containers`): abstract view of the group; lookup = found iff present */
#define LG_CH(g) ((const struct TbfCellsContainer__ContainerHeader *)(g)->objectData.blockRawPtrs[0])
#define LG_CC(g) ((const struct TbfCellsContainer__CellHeader *)(g)->objectData.blockRawPtrs[1])
#define LG_PH(g) ((const struct TbfParticlesContainer__ContainerHeader *)(g)->objectData.blockRawPtrs[0])
#define LG_PL(g) ((const struct TbfParticlesContainer__LeafHeader *)(g)->objectData.blockRawPtrs[1])
long TbfCellsContainer__getNbCells(const CellGroup *g) { return LG_CH(g)->nbCells; }
long TbfCellsContainer__getCellSpacialIndex(const CellGroup *g, const long i) { __CPROVER_assert(0 <= i && i < LG_CH(g)->nbCells, "accessor precondition: cell position in range"); return LG_CC(g)[i].spaceIndex; }
long TbfCellsContainer__getStartingSpacialIndex(const CellGroup *g) { return LG_CH(g)->startingSpaceIndex; }
long TbfCellsContainer__getEndingSpacialIndex(const CellGroup *g) { return LG_CH(g)->endingSpaceIndex; }
struct std_optional_long TbfCellsContainer__getElementFromSpacialIndex(const CellGroup *g, const long idx)
{ for(long i = 0; i < 2; ++i) if(i < LG_CH(g)->nbCells && LG_CC(g)[i].spaceIndex == idx) return (struct std_optional_long){1, i}; return (struct std_optional_long){0, 0}; }
long TbfParticlesContainer__getNbLeaves(const PartGroup *g) { return LG_PH(g)->nbLeaves; }
long TbfParticlesContainer__getLeafSpacialIndex(const PartGroup *g, const long i) { __CPROVER_assert(0 <= i && i < LG_PH(g)->nbLeaves, "accessor precondition: leaf position in range"); return LG_PL(g)[i].spaceIndex; }
long TbfParticlesContainer__getStartingSpacialIndex(const PartGroup *g) { return LG_PH(g)->startingSpaceIndex; }
long TbfParticlesContainer__getEndingSpacialIndex(const PartGroup *g) { return LG_PH(g)->endingSpaceIndex; }
struct std_optional_long TbfParticlesContainer__getElementFromSpacialIndex(const PartGroup *g, const long idx)
{ for(long i = 0; i < 2; ++i) if(i < LG_PH(g)->nbLeaves && LG_PL(g)[i].spaceIndex == idx) return (struct std_optional_long){1, i}; return (struct std_optional_long){0, 0}; }

static inline long spec_wrap(long x, long lim) { return PERIODIC ? ((x % lim) + lim) % lim : x; }
/* is offset d (relative to cell c at level lv) in the interaction list ? */
static inline _Bool spec_in_il(const long *c, const long *d, long lv)
{
  if(lv < (PERIODIC ? 1 : 2)) return 0;
  const long lim = 1L << lv;
  _Bool far = 0;
  for(long k = 0; k < DIM; ++k) {
    long x = c[k] + d[k];
    if(!PERIODIC && (x < 0 || x >= lim)) return 0;
    /* parent of c+d (unwrapped coordinates, floor division) adjacent or equal to parent of c */
    long px = (x >= 0 ? x >> 1 : -((-x + 1) >> 1)), pc = c[k] >> 1;
    if(px - pc > 1 || pc - px > 1) return 0;
    if(d[k] > 1 || d[k] < -1) far = 1;
    if(d[k] > 3 || d[k] < -3) return 0;
  }
  return far;
}
static inline _Bool spec_in_nl(const long *c, const long *d, long lv)
{
  const long lim = 1L << lv;
  _Bool nonzero = 0;
  for(long k = 0; k < DIM; ++k) {
    long x = c[k] + d[k];
    if(!PERIODIC && (x < 0 || x >= lim)) return 0;
    if(d[k] > 1 || d[k] < -1) return 0;
    if(d[k] != 0) nonzero = 1;
  }
  return nonzero;
}
static inline long spec_index_of(const long *c, const long *d, long lv)
{
  long p[DIM];
  for(long k = 0; k < DIM; ++k) p[k] = spec_wrap(c[k] + d[k], 1L << lv);
  return spec_index(p);
}
#endif

/* ===================================================================================== */
#ifdef SPEC_PART_HARNESS
_Bool nondet_bool(void);
#define POW7 spec_ipow(7, DIM)
#define POW3 spec_ipow(3, DIM)

static long count_long(const struct std_vector_long *v, long target)
{
  long cnt = 0;
  for(long i = 0; i < VEC_CAP; ++i) if(i < (long)v->size && v->data[i] == target) cnt++;
  return cnt;
}

/*@ harness bounded_il_index plain=1 unwind=UNW unwindset=USET bounded=DIM,level<=LMAX,all-cells,all-offsets props=C11,C10,C15 timeout=1500 */
void bounded_il_index(void)
{
  Morton m; long lv, idx; long c[DIM], d[DIM];
  __CPROVER_assume(0 <= lv && lv <= LMAX && 0 <= idx && idx < (1L << (DIM * lv)));
  for(long k = 0; k < DIM; ++k) { c[k] = spec_coord(idx, k); __CPROVER_assume(-3 <= d[k] && d[k] <= 3); }
  struct std_vector_long v = M_getInteractionListForIndex(&m, idx, lv);
  __CPROVER_assert((long)v.size <= spec_ipow(6, DIM) - spec_ipow(3, DIM), "C11: an interaction list has at most 6^D - 3^D entries");
  if(PERIODIC && lv >= 1) __CPROVER_assert((long)v.size == spec_ipow(6, DIM) - spec_ipow(3, DIM), "C10: a periodic interaction list has exactly 6^D - 3^D entries");
  /* soundness of an arbitrary entry, completeness for an arbitrary offset (non periodic: indices identify offsets) */
  long w; __CPROVER_assume(0 <= w && w < (long)v.size);
  long e = v.data[w];
  __CPROVER_assert(0 <= e && e < (1L << (DIM * lv)), "C11: listed index is a cell of the level");
  if(!PERIODIC) {
    long de[DIM]; for(long k = 0; k < DIM; ++k) de[k] = spec_coord(e, k) - c[k];
    __CPROVER_assert(spec_in_il(c, de, lv), "C11: every listed cell is a child of a neighbour of the parent and not adjacent");
    const long target = spec_index_of(c, d, lv);
    long cnt = count_long(&v, target);
    __CPROVER_assert(cnt == (spec_in_il(c, d, lv) ? 1 : 0), "C11: the interaction list contains exactly the well-separated children of the parent's neighbours, once each");
  }
  CANARY();
}

/*@ harness bounded_nl_index plain=1 unwind=UNW unwindset=USET bounded=DIM,level<=LMAX,all-cells,all-offsets props=C11,C10,C15 timeout=1500 */
void bounded_nl_index(void)
{
  Morton m; long lv, idx; long c[DIM], d[DIM]; _Bool upper = nondet_bool();
  __CPROVER_assume(0 <= lv && lv <= LMAX && 0 <= idx && idx < (1L << (DIM * lv)));
  for(long k = 0; k < DIM; ++k) { c[k] = spec_coord(idx, k); __CPROVER_assume(-1 <= d[k] && d[k] <= 1); }
  struct std_vector_long v = M_getNeighborListForIndex(&m, idx, lv, upper);
  __CPROVER_assert((long)v.size <= POW3 - 1, "C11: at most 3^D - 1 neighbours");
  if(!PERIODIC || lv >= 2) {
    /* from level 2 on (4 cells per dimension) distinct offsets reach distinct cells also when wrapped */
    const long target = spec_index_of(c, d, lv);
    long cnt = count_long(&v, target);
    _Bool want = spec_in_nl(c, d, lv) && (!upper || spec_code(d, 3, 1) > POW3 / 2);
    __CPROVER_assert(cnt == (want ? 1 : 0), "C11: the neighbour list contains exactly the adjacent cells (upper half when requested), once each");
  }
  CANARY();
}

/* ---- per-group builders on a group of <= 2 cells */
static void mk_small_cells(CellGroup *g, long n, long i0, long i1)
{
  struct TbfCellsContainer__ContainerHeader *h = malloc(sizeof(*h));
  struct TbfCellsContainer__CellHeader *cl = malloc(2 * sizeof(*cl));
  long *nb = malloc(2 * sizeof(long));
  h->nbCells = n; h->startingSpaceIndex = i0; h->endingSpaceIndex = (n == 2 ? i1 : i0);
  cl[0].spaceIndex = i0; cl[1].spaceIndex = i1; nb[0] = 1; nb[1] = n;
  g->objectData.nbItemsInBlocks = nb; g->objectData.blockRawPtrs[0] = (unsigned char *)h; g->objectData.blockRawPtrs[1] = (unsigned char *)cl;
}
static void mk_small_parts(PartGroup *g, long n, long i0, long i1)
{
  struct TbfParticlesContainer__ContainerHeader *h = malloc(sizeof(*h));
  struct TbfParticlesContainer__LeafHeader *cl = malloc(2 * sizeof(*cl));
  long *nb = malloc(4 * sizeof(long));
  h->nbLeaves = n; h->startingSpaceIndex = i0; h->endingSpaceIndex = (n == 2 ? i1 : i0);
  cl[0].spaceIndex = i0; cl[1].spaceIndex = i1; nb[0] = 1; nb[1] = n;
  g->objectData.nbItemsInBlocks = nb; g->objectData.blockRawPtrs[0] = (unsigned char *)h; g->objectData.blockRawPtrs[1] = (unsigned char *)cl;
}
static long count_tagged(const struct std_vector_TbfXtoXInteraction *v, long gpos, long code)
{
  long cnt = 0;
  for(long i = 0; i < VEC_CAP; ++i) if(i < (long)v->size && v->data[i].globalTargetPos == gpos && v->data[i].arrayIndexSrc == code) cnt++;
  return cnt;
}

/*@ harness bounded_il_block when=DIM==1 plain=1 unwind=UNW unwindset=USET bounded=DIM,level<=LMAX,groups<=2cells,all-offsets props=C11,C10,C02,C15 timeout=2400 */
void bounded_il_block(void)
{
  Morton m; CellGroup g; long lv, n, i0, i1; _Bool self = nondet_bool();
  __CPROVER_assume(0 <= lv && lv <= LMAX && 1 <= n && n <= 2 && 0 <= i0 && i0 < i1 && i1 < (1L << (DIM * lv)));
  mk_small_cells(&g, n, i0, i1);
  long wc; __CPROVER_assume(0 <= wc && wc < n);
  const long cidx = wc ? i1 : i0;
  long c[DIM], d[DIM];
  for(long k = 0; k < DIM; ++k) { c[k] = spec_coord(cidx, k); __CPROVER_assume(-3 <= d[k] && d[k] <= 3); }
  struct std_pair_std_vector_TbfXtoXInteraction_std_vector_TbfXtoXInteraction r = M_getInteractionListForBlock(&m, &g, lv, self);
  const long code = spec_code(d, 7, 3), src = spec_index_of(c, d, lv);
  const _Bool valid = spec_in_il(c, d, lv);
  const _Bool inrange = (i0 <= src && src <= (n == 2 ? i1 : i0));
  const _Bool present = (src == i0) || (n == 2 && src == i1);
  __CPROVER_assert(count_tagged(&r.second, wc, code) == ((valid && !inrange) ? 1 : 0), "C11: out-of-group interactions are exactly those whose source index lies outside the group's range");
  __CPROVER_assert(count_tagged(&r.first, wc, code) == ((valid && inrange && (!self || present)) ? 1 : 0), "C11: in-group interactions are exactly those whose source lies in the range (and exists, when the self-inclusion test is on)");
  /* every entry is consistent: an arbitrary entry of either list */
  _Bool second = nondet_bool(); const struct std_vector_TbfXtoXInteraction *lst = second ? &r.second : &r.first;
  long w; __CPROVER_assume(0 <= w && w < (long)lst->size);
  Inter e = lst->data[w];
  __CPROVER_assert(0 <= e.globalTargetPos && e.globalTargetPos < n && e.indexTarget == (e.globalTargetPos ? i1 : i0), "C02: target position and target index agree");
  __CPROVER_assert(0 <= e.arrayIndexSrc && e.arrayIndexSrc < POW7, "C11: position code in range");
  long ce[DIM], de[DIM];
  { long cc = e.arrayIndexSrc; for(long k = DIM - 1; k >= 0; --k) { de[k] = cc % 7 - 3; cc /= 7; } }
  for(long k = 0; k < DIM; ++k) ce[k] = spec_coord(e.indexTarget, k);
  __CPROVER_assert(spec_in_il(ce, de, lv) && e.indexSrc == spec_index_of(ce, de, lv), "C11/C02: the position code decodes to the true relative offset of the listed source (wrapped when periodic)");
  CANARY();
}

/*@ harness bounded_nl_block when=DIM==1 plain=1 unwind=UNW unwindset=USET bounded=DIM,level<=LMAX,groups<=2leaves,all-offsets props=C11,C10,C02,C15 timeout=2400 */
void bounded_nl_block(void)
{
  Morton m; PartGroup g; long lv, n, i0, i1; _Bool self = nondet_bool(), upper = nondet_bool();
  __CPROVER_assume(0 <= lv && lv <= LMAX && 1 <= n && n <= 2 && 0 <= i0 && i0 < i1 && i1 < (1L << (DIM * lv)));
  mk_small_parts(&g, n, i0, i1);
  long wc; __CPROVER_assume(0 <= wc && wc < n);
  const long cidx = wc ? i1 : i0;
  long c[DIM], d[DIM];
  for(long k = 0; k < DIM; ++k) { c[k] = spec_coord(cidx, k); __CPROVER_assume(-1 <= d[k] && d[k] <= 1); }
  struct std_pair_std_vector_TbfXtoXInteraction_std_vector_TbfXtoXInteraction r = M_getNeighborListForBlock(&m, &g, lv, upper, self);
  const long code = spec_code(d, 3, 1), src = spec_index_of(c, d, lv);
  const _Bool valid = spec_in_nl(c, d, lv) && (!upper || code > POW3 / 2);
  const _Bool inrange = (i0 <= src && src <= (n == 2 ? i1 : i0));
  const _Bool present = (src == i0) || (n == 2 && src == i1);
  __CPROVER_assert(count_tagged(&r.second, wc, code) == ((valid && !inrange) ? 1 : 0), "C11: out-of-group neighbours are exactly those whose index lies outside the group's range");
  __CPROVER_assert(count_tagged(&r.first, wc, code) == ((valid && inrange && (!self || present)) ? 1 : 0), "C11: in-group neighbours are exactly those in the range (and existing, when the self-inclusion test is on)");
  _Bool second = nondet_bool(); const struct std_vector_TbfXtoXInteraction *lst = second ? &r.second : &r.first;
  long w; __CPROVER_assume(0 <= w && w < (long)lst->size);
  Inter e = lst->data[w];
  __CPROVER_assert(0 <= e.globalTargetPos && e.globalTargetPos < n && e.indexTarget == (e.globalTargetPos ? i1 : i0), "C02: target position and target index agree");
  long ce[DIM], de[DIM];
  { long cc = e.arrayIndexSrc; __CPROVER_assert(0 <= cc && cc < POW3, "C11: neighbour code in range"); for(long k = DIM - 1; k >= 0; --k) { de[k] = cc % 3 - 1; cc /= 3; } }
  for(long k = 0; k < DIM; ++k) ce[k] = spec_coord(e.indexTarget, k);
  __CPROVER_assert(spec_in_nl(ce, de, lv) && e.indexSrc == spec_index_of(ce, de, lv), "C11/C02: the neighbour code decodes to the true relative offset (wrapped when periodic)");
  /* each adjacent pair is visited from exactly one side by the half list */
  long nd[DIM]; for(long k = 0; k < DIM; ++k) nd[k] = -d[k];
  if(spec_code(d, 3, 1) != POW3 / 2) __CPROVER_assert((spec_code(d, 3, 1) > POW3 / 2) != (spec_code(nd, 3, 1) > POW3 / 2), "C01: the upper-half filter keeps exactly one of d and -d");
  /* self list */
  struct std_vector_TbfXtoXInteraction s = M_getSelfListForBlock(&m, &g);
  __CPROVER_assert((long)s.size == n, "C09: the self list has one entry per leaf");
  long ws; __CPROVER_assume(0 <= ws && ws < n);
  __CPROVER_assert(s.data[ws].globalTargetPos == ws && s.data[ws].indexSrc == s.data[ws].indexTarget && s.data[ws].indexTarget == (ws ? i1 : i0) && s.data[ws].arrayIndexSrc == POW3 / 2, "C09: self list entry pairs the leaf with itself, centre code");
  CANARY();
}
#endif
