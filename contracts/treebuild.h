/* treebuild.h - TbfTree construction and rebuild (src/core/tbftree.hpp, tbfparticlesorter.hpp,
 * tbfparticlescontainer.hpp, tbfcellscontainer.hpp, tbfmemoryblock.hpp) followed by the sequential executor,
 * all REAL extracted bodies.   C06, C07, C13 (and C01/C02/C08 on really constructed trees).
 *
 * BOUNDED STAND-IN: concrete inputs enumerated by the runner (CFG_*): 1-D box [0,1], height HEIGHT (3), up to 4
 * particles whose positions are drawn from a grid that contains cell centres, cell faces and both box faces,
 * block sizes 1..3, both parent-grouping modes.  CBMC executes the extracted code on each configuration with all
 * safety checks and the library's own assertions on.  Not an unbounded proof. */
#ifdef SPEC_PART_MODEL
#include "prelude.h"
#define VEC_CAP 24
#define NPMAX 4
#include "stl_model.h"
#endif

#ifdef SPEC_PART_CONTRACTS
#define LEAFLVL (HEIGHT - 1)
#define NCHILD (1L << DIM)
typedef struct TbfCellsContainer CellGroup;
typedef struct TbfParticlesContainer PartGroup;
typedef struct TbfCellsContainer__CellHeader CellHeader;
typedef struct TbfParticlesContainer__LeafHeader LeafHeader;
typedef struct VerifKernel Kernel;
#define CAT2_(a, b) a##b
#define CAT2(a, b) CAT2_(a, b)
#define ARR_CDATA CAT2(std_array_cdouble_p_, NBDATA)
#define ARR_RHS CAT2(std_array_long_p_, NBRHS)
_Bool ghost_cfg_equal;
_Bool TbfSpacialConfiguration__op_eq(const struct TbfSpacialConfiguration *self, const struct TbfSpacialConfiguration *other) { return ghost_cfg_equal; }
int TbfBlockSizeFinder__Estimate__double_std_vector_std_array_double_2_TbfMortonSpaceIndex(const struct std_vector_std_array_double_2 *p, const struct TbfSpacialConfiguration *c, const int n)
{ __CPROVER_assert(0, "the automatic block size is not used by these configurations"); return 1; }
void *__verif_memset(void *s, int c, unsigned long n) { return __builtin_memset(s, c, n); }
#define TB_EMPTY(B) void B##__constructAllItems(struct B *self) {} void B##__freeAllItems(struct B *self) {}
TB_EMPTY(CellSymbBlock) TB_EMPTY(CellMultipoleBlock) TB_EMPTY(CellLocalBlock) TB_EMPTY(PartSymbBlock) TB_EMPTY(PartRhsBlock)

static long g_count[NLEAF];   /* particles per leaf cell (from the harness's own binning of the inputs) */

/* exactly additive counting kernel (per-source-leaf counters) with argument-geometry checks */
void K_P2M(Kernel *self, const CellHeader *symb, const long *idx, const struct ARR_CDATA *data, const long nb, struct VerifMultipole *out)
{
  __CPROVER_assert(0 <= symb->spaceIndex && symb->spaceIndex < NLEAF && nb == g_count[symb->spaceIndex] && nb >= 1, "C02: P2M receives all the particles of a non-empty leaf");
  __CPROVER_assert(out->self_index == symb->spaceIndex && out->self_level == LEAFLVL, "C02: P2M output multipole belongs to the leaf whose header is given");
  out->c[symb->spaceIndex] += nb;
}
void K_M2M(Kernel *self, const CellHeader *symb, const long level, const struct std_vector_cVerifMultipole_p *children, struct VerifMultipole *out, const long *positions, const long nb)
{
  __CPROVER_assert(1 <= nb && nb <= NCHILD && nb == (long)children->size, "C02: M2M is never called with an empty or oversized child list");
  __CPROVER_assert(out->self_index == symb->spaceIndex && out->self_level == level, "C02: M2M parent multipole / header / level agree");
  for(long k = 0; k < NCHILD; ++k) if(k < nb) {
    const struct VerifMultipole *ch = children->data[k];
    __CPROVER_assert(ch->self_level == level + 1 && (ch->self_index >> DIM) == symb->spaceIndex && positions[k] == (ch->self_index & (NCHILD - 1)), "C02: M2M children belong to the parent; position code is the octant");
    for(long s = 0; s < NLEAF; ++s) out->c[s] += ch->c[s];
  }
}
void K_M2L(Kernel *self, const CellHeader *symb, const long level, const struct std_vector_cVerifMultipole_p *srcs, const long *positions, const long nb, struct VerifLocal *out)
{
  __CPROVER_assert(1 <= nb && nb == (long)srcs->size && nb <= 3, "C02: M2L is never called with an empty source list");
  __CPROVER_assert(out->self_index == symb->spaceIndex && out->self_level == level, "C02: M2L target local / header / level agree");
  for(long k = 0; k < 3; ++k) if(k < nb) {
    const struct VerifMultipole *src = srcs->data[k];
    long d = src->self_index - symb->spaceIndex;
    __CPROVER_assert(src->self_level == level && positions[k] == d + 3 && (d >= 2 || d <= -2) && d <= 3 && d >= -3, "C02: M2L source at the stated level, code == true offset, well separated");
    for(long s = 0; s < NLEAF; ++s) out->c[s] += src->c[s];
  }
}
void K_L2L(Kernel *self, const CellHeader *symb, const long level, const struct VerifLocal *parent, struct std_vector_VerifLocal_p *children, const long *positions, const long nb)
{
  __CPROVER_assert(1 <= nb && nb <= NCHILD && nb == (long)children->size, "C02: L2L is never called with an empty or oversized child list");
  __CPROVER_assert(parent->self_index == symb->spaceIndex && parent->self_level == level, "C02: L2L parent local / header / level agree");
  for(long k = 0; k < NCHILD; ++k) if(k < nb) {
    struct VerifLocal *ch = children->data[k];
    __CPROVER_assert(ch->self_level == level + 1 && (ch->self_index >> DIM) == symb->spaceIndex && positions[k] == (ch->self_index & (NCHILD - 1)), "C02: L2L children belong to the parent; position code is the octant");
    for(long s = 0; s < NLEAF; ++s) ch->c[s] += parent->c[s];
  }
}
void K_L2P(Kernel *self, const CellHeader *symb, const struct VerifLocal *loc, const long *idx, const struct ARR_CDATA *data, struct ARR_RHS *rhs, const long nb)
{
  __CPROVER_assert(loc->self_index == symb->spaceIndex && loc->self_level == LEAFLVL && nb == g_count[symb->spaceIndex], "C02: L2P local and particles belong to the leaf whose header is given");
  for(long s = 0; s < NLEAF; ++s) for(long k = 0; k < NPMAX; ++k) if(k < nb) rhs->d[s][k] += loc->c[s];
}
void K_P2P(Kernel *self, const LeafHeader *ssymb, const long *sidx, const struct ARR_CDATA *sdata, struct ARR_RHS *srhs, const long snb,
           const LeafHeader *tsymb, const long *tidx, const struct ARR_CDATA *tdata, struct ARR_RHS *trhs, const long tnb, const long code)
{
  long d = ssymb->spaceIndex - tsymb->spaceIndex;
  __CPROVER_assert(snb == g_count[ssymb->spaceIndex] && tnb == g_count[tsymb->spaceIndex], "C02: P2P receives all particles of the two leaves");
  __CPROVER_assert((d == 1 || d == -1) && code == d + 1, "C02: P2P leaves are adjacent; code == true offset");
  for(long k = 0; k < NPMAX; ++k) if(k < tnb) trhs->d[ssymb->spaceIndex][k] += snb;
  for(long k = 0; k < NPMAX; ++k) if(k < snb) srhs->d[tsymb->spaceIndex][k] += tnb;
}
void K_P2PInner(Kernel *self, const LeafHeader *symb, const long *idx, const struct ARR_CDATA *data, struct ARR_RHS *rhs, const long nb)
{
  __CPROVER_assert(nb == g_count[symb->spaceIndex], "C02: P2PInner receives the particles of that leaf");
  for(long k = 0; k < NPMAX; ++k) if(k < nb) rhs->d[symb->spaceIndex][k] += nb - 1;
}
#endif

/* ===================================================================================== */
#ifdef SPEC_PART_HARNESS
/* position grid: k/8 for k = 0..8 (cell faces at multiples of 2/8, centres at odd k, both box faces) */
#define POSOF(code) (((double)(code)) / 8.0)
#define CFG_POSCODE(i) ((CFG_POS >> (4 * (i))) & 15)
static long g_poscode[NPMAX];   /* current grid position code of the particle with original index i */
static long leaf_of_code(long code) { return code >= 8 ? NLEAF - 1 : code / 2; }   /* independent binning of the grid positions */

#define CG_HDR(g) ((const struct TbfCellsContainer__ContainerHeader *)(g)->objectData.blockRawPtrs[0])
#define CG_CELLS(g) ((const CellHeader *)(g)->objectData.blockRawPtrs[1])
#define CG_MULT(g) ((struct VerifMultipole *)(g)->objectMultipole.blockRawPtrs[0])
#define CG_LOC(g) ((struct VerifLocal *)(g)->objectLocal.blockRawPtrs[0])
#define PG_HDR(g) ((const struct TbfParticlesContainer__ContainerHeader *)(g)->objectData.blockRawPtrs[0])
#define PG_LEAVES(g) ((const LeafHeader *)(g)->objectData.blockRawPtrs[1])
#define PG_PIDX(g) ((const long *)(g)->objectData.blockRawPtrs[2])

static void check_tree(struct TbfTree *t, const struct std_array_double_2 *in, long np, long bs, _Bool mode, _Bool expect_zero_rhs)
{
  /* C07: per level strictly increasing cells over consecutive non-empty groups, header first/last/count right,
   *      level = exactly the parents of the level below; leaf cell groups mirror particle groups; block size respected */
  __CPROVER_assert((long)t->cellBlocks.size == HEIGHT, "C07: one group list per level");
  long seen[NPMAX]; for(long p = 0; p < NPMAX; ++p) seen[p] = 0;
  for(long lv = HEIGHT - 1; lv >= 0; --lv) {
    const struct std_vector_TbfCellsContainer *gl = &t->cellBlocks.data[lv];
    long prev = -1;
    __CPROVER_assert(gl->size >= 1, "C07: every level has at least one group");
    for(long g = 0; g < NLEAF; ++g) if(g < (long)gl->size) {
      const CellGroup *cg = &gl->data[g];
      long n = CG_HDR(cg)->nbCells;
      __CPROVER_assert(1 <= n && n <= NLEAF, "C07: groups are non-empty");
      if(!mode) __CPROVER_assert(n <= bs, "C07: no group exceeds the requested block size");
      __CPROVER_assert(CG_HDR(cg)->startingSpaceIndex == CG_CELLS(cg)[0].spaceIndex && CG_HDR(cg)->endingSpaceIndex == CG_CELLS(cg)[n - 1].spaceIndex, "C07: recorded first/last index match the content");
      for(long i = 0; i < NLEAF; ++i) if(i < n) {
        long idx = CG_CELLS(cg)[i].spaceIndex;
        __CPROVER_assert(idx > prev && 0 <= idx && idx < (1L << (DIM * lv)), "C07: cells strictly increasing across consecutive groups, inside the level");
        prev = idx;
        __CPROVER_assert(CG_CELLS(cg)[i].boxCoord.d[0] == idx, "C06: cell header coordinate is the decoded index");
        /* exactly the ancestor closure: a cell exists iff some input particle lies in it */
        __CPROVER_assert(CG_MULT(cg)[i].c[0] == 0 && CG_LOC(cg)[i].c[NLEAF - 1] == 0 || !expect_zero_rhs, "C06: cell expansions start at zero");
        CG_MULT(cg)[i].self_index = idx; CG_MULT(cg)[i].self_level = lv;   /* ghost identity for the kernel model */
        CG_LOC(cg)[i].self_index = idx; CG_LOC(cg)[i].self_level = lv;
      }
    }
    /* closure: number of cells at this level == number of distinct ancestors of occupied leaves */
    long want = 0;
    for(long c = 0; c < NLEAF; ++c) if(c < (1L << (DIM * lv))) { _Bool occ = 0; for(long l = 0; l < NLEAF; ++l) if(g_count[l] > 0 && (l >> (DIM * (LEAFLVL - lv))) == c) occ = 1; if(occ) want++; }
    long have = 0;
    for(long g = 0; g < NLEAF; ++g) if(g < (long)gl->size) have += CG_HDR(&gl->data[g])->nbCells;
    __CPROVER_assert(have == want, "C07: the cells of a level are exactly the ancestors of the occupied leaves");
  }
  /* C06: every input particle stored exactly once, in the leaf containing it, original index and data bit-identical, rhs zero */
  const struct std_vector_TbfCellsContainer *leafl = &t->cellBlocks.data[LEAFLVL];
  __CPROVER_assert(t->particleGroups.size == leafl->size, "C07: leaf cell groups correspond one-to-one with particle groups");
  for(long g = 0; g < NLEAF; ++g) if(g < (long)t->particleGroups.size) {
    PartGroup *pg = &t->particleGroups.data[g];
    const CellGroup *cg = &leafl->data[g];
    long nl = PG_HDR(pg)->nbLeaves;
    __CPROVER_assert(nl == CG_HDR(cg)->nbCells && PG_HDR(pg)->startingSpaceIndex == CG_HDR(cg)->startingSpaceIndex && PG_HDR(pg)->endingSpaceIndex == CG_HDR(cg)->endingSpaceIndex, "C07: particle group mirrors its leaf cell group");
    for(long l = 0; l < NLEAF; ++l) if(l < nl) {
      long leaf = PG_LEAVES(pg)[l].spaceIndex;
      __CPROVER_assert(leaf == CG_CELLS(cg)[l].spaceIndex && PG_LEAVES(pg)[l].nbParticles == g_count[leaf], "C06/C07: leaf by leaf correspondence, every particle of the leaf present");
      struct ARR_CDATA dp = TbfParticlesContainer__getParticleData__c(pg, l);
      struct ARR_RHS rp = TbfParticlesContainer__getParticleRhs(pg, l);
      for(long k = 0; k < NPMAX; ++k) if(k < PG_LEAVES(pg)[l].nbParticles) {
        long p = PG_PIDX(pg)[PG_LEAVES(pg)[l].offSet + k];
        __CPROVER_assert(0 <= p && p < np, "C06: stored original index in range");
        seen[p]++;
        __CPROVER_assert(leaf_of_code(g_poscode[p]) == leaf, "C06: the particle sits in the leaf whose box contains its position");
        for(long v = 0; v < NBDATA; ++v) __CPROVER_assert(dp.d[v][k] == in[p].d[v], "C06: data values are bit-identical copies");
        if(expect_zero_rhs) for(long v = 0; v < NBRHS; ++v) __CPROVER_assert(rp.d[v][k] == 0, "C06: result values start at zero");
      }
    }
  }
  for(long p = 0; p < NPMAX; ++p) if(p < np) __CPROVER_assert(seen[p] == 1, "C06: every input particle is stored exactly once");
}

static void collect_rhs(struct TbfTree *t, long out[NPMAX][NBRHS])
{
  for(long g = 0; g < NLEAF; ++g) if(g < (long)t->particleGroups.size) {
    PartGroup *pg = &t->particleGroups.data[g];
    for(long l = 0; l < NLEAF; ++l) if(l < PG_HDR(pg)->nbLeaves) {
      struct ARR_RHS rp = TbfParticlesContainer__getParticleRhs(pg, l);
      for(long k = 0; k < NPMAX; ++k) if(k < PG_LEAVES(pg)[l].nbParticles) {
        long p = PG_PIDX(pg)[PG_LEAVES(pg)[l].offSet + k];
        for(long s = 0; s < NBRHS; ++s) out[p][s] = rp.d[s][k];
      }
    }
  }
}
static void check_results(struct TbfTree *t, long times)
{
  for(long g = 0; g < NLEAF; ++g) if(g < (long)t->particleGroups.size) {
    PartGroup *pg = &t->particleGroups.data[g];
    for(long l = 0; l < NLEAF; ++l) if(l < PG_HDR(pg)->nbLeaves) {
      long leaf = PG_LEAVES(pg)[l].spaceIndex;
      struct ARR_RHS rp = TbfParticlesContainer__getParticleRhs(pg, l);
      for(long k = 0; k < NPMAX; ++k) if(k < PG_LEAVES(pg)[l].nbParticles)
        for(long s = 0; s < NLEAF; ++s)
          __CPROVER_assert(rp.d[s][k] == times * (s == leaf ? g_count[s] - 1 : g_count[s]), "C01/C13: every particle has exactly one contribution from every other particle (per full execution), none from itself");
    }
  }
}


static void tb_inputs(struct TbfSpacialConfiguration *cfg, struct std_array_double_2 *in, struct std_vector_std_array_double_2 *parts)
{
  cfg->treeHeight = HEIGHT;
  cfg->boxCenter.d[0] = 0.5; cfg->boxCorner.d[0] = 0.0; cfg->boxWidths.d[0] = 1.0; cfg->boxWidthsAtLeafLevel.d[0] = 1.0 / NLEAF;
  for(long l = 0; l < NLEAF; ++l) g_count[l] = 0;
  for(long p = 0; p < CFG_NP; ++p) { g_poscode[p] = CFG_POSCODE(p); in[p].d[0] = POSOF(g_poscode[p]); in[p].d[1] = 100.0 + p; g_count[leaf_of_code(g_poscode[p])]++; }
  parts->data = in; parts->size = CFG_NP; parts->cap = NPMAX;
}
/*@ harness bounded_build plain=1 flags=max-field-sensitivity-array-size:4096 enumerate=build unwind=UNW bounded=1-D,height3,<=4-particles-on-a-9-point-grid,blocksize1..3,both-modes defs=REAL_TREE props=C06,C07,C08,C15 timeout=1500 */
void bounded_build(void)
{
  struct TbfSpacialConfiguration cfg; struct std_array_double_2 in[NPMAX]; struct std_vector_std_array_double_2 parts;
  tb_inputs(&cfg, in, &parts);
  struct TbfTree t;
  TbfTree__ctor__std_vector_std_array_double_2(&t, &cfg, &parts, CFG_BS, CFG_MODE);
  check_tree(&t, in, CFG_NP, CFG_BS, CFG_MODE, 1);
  CANARY();
}
/*@ harness bounded_rebuild plain=1 flags=max-field-sensitivity-array-size:4096 enumerate=build unwind=UNW bounded=1-D,height3,<=4-particles-on-a-9-point-grid,blocksize1..3,both-modes,one-particle-moved defs=REAL_TREE props=C13,C07,C08,C15 timeout=1500 */
void bounded_rebuild(void)
{
  struct TbfSpacialConfiguration cfg; struct std_array_double_2 in[NPMAX]; struct std_vector_std_array_double_2 parts;
  tb_inputs(&cfg, in, &parts);
  struct TbfTree t;
  TbfTree__ctor__std_vector_std_array_double_2(&t, &cfg, &parts, CFG_BS, CFG_MODE);
  /* stand for an earlier execution: give every particle distinguishable results and dirty every cell expansion */
  for(long g = 0; g < NLEAF; ++g) if(g < (long)t.particleGroups.size) {
    PartGroup *pg = &t.particleGroups.data[g];
    for(long l = 0; l < NLEAF; ++l) if(l < PG_HDR(pg)->nbLeaves) {
      struct ARR_RHS rp = TbfParticlesContainer__getParticleRhs(pg, l);
      struct std_array_double_p_2 dp = TbfParticlesContainer__getParticleData(pg, l);
      for(long k = 0; k < NPMAX; ++k) if(k < PG_LEAVES(pg)[l].nbParticles) {
        long p = PG_PIDX(pg)[PG_LEAVES(pg)[l].offSet + k];
        for(long s = 0; s < NBRHS; ++s) rp.d[s][k] = 1000 * (p + 1) + s;
#ifdef CFG_MOVE
        if(p == 0) dp.d[0][k] = POSOF(CFG_MOVE);      /* C13: particle 0 moved in place */
#endif
      }
    }
  }
  for(long lv = 0; lv < HEIGHT; ++lv) for(long g = 0; g < NLEAF; ++g) if(g < (long)t.cellBlocks.data[lv].size) {
    const CellGroup *cg = &t.cellBlocks.data[lv].data[g];
    for(long i = 0; i < NLEAF; ++i) if(i < CG_HDR(cg)->nbCells) { CG_MULT(cg)[i].c[0] = 7; CG_LOC(cg)[i].c[NLEAF - 1] = 9; }
  }
#ifdef CFG_MOVE
  g_count[leaf_of_code(g_poscode[0])]--; g_count[leaf_of_code(CFG_MOVE)]++;
  g_poscode[0] = CFG_MOVE; in[0].d[0] = POSOF(CFG_MOVE);
#endif
  TbfTree__rebuild(&t);
  /* C13: equivalent to a fresh build from the edited particles (same structural checks), expansions reset ... */
  check_tree(&t, in, CFG_NP, CFG_BS, CFG_MODE, 0);
  for(long lv = 0; lv < HEIGHT; ++lv) for(long g = 0; g < NLEAF; ++g) if(g < (long)t.cellBlocks.data[lv].size) {
    const CellGroup *cg = &t.cellBlocks.data[lv].data[g];
    for(long i = 0; i < NLEAF; ++i) if(i < CG_HDR(cg)->nbCells) __CPROVER_assert(CG_MULT(cg)[i].c[0] == 0 && CG_LOC(cg)[i].c[NLEAF - 1] == 0, "C13: rebuild resets every cell expansion to zero");
  }
  /* ... and every particle keeps its accumulated results under its original index */
  long after[NPMAX][NBRHS];
  collect_rhs(&t, after);
  for(long p = 0; p < CFG_NP; ++p) for(long s = 0; s < NBRHS; ++s) __CPROVER_assert(after[p][s] == 1000 * (p + 1) + s, "C13: rebuild keeps every particle's accumulated results under its original index");
  CANARY();
}

/*@ harness bounded_build_execute_rebuild tier=thorough plain=1 flags=max-field-sensitivity-array-size:4096 enumerate=build unwind=UNW bounded=1-D,height3,<=4-particles-on-a-9-point-grid,blocksize1..3,both-modes defs=REAL_TREE props=C06,C07,C13,C01,C02,C08,C15 timeout=1500 */
void bounded_build_execute_rebuild(void)
{
  struct TbfSpacialConfiguration cfg;
  cfg.treeHeight = HEIGHT;
  cfg.boxCenter.d[0] = 0.5; cfg.boxCorner.d[0] = 0.0; cfg.boxWidths.d[0] = 1.0; cfg.boxWidthsAtLeafLevel.d[0] = 1.0 / NLEAF;
  struct std_array_double_2 in[NPMAX];
  for(long l = 0; l < NLEAF; ++l) g_count[l] = 0;
  for(long p = 0; p < CFG_NP; ++p) { g_poscode[p] = CFG_POSCODE(p); in[p].d[0] = POSOF(g_poscode[p]); in[p].d[1] = 100.0 + p; g_count[leaf_of_code(g_poscode[p])]++; }
  struct std_vector_std_array_double_2 parts; parts.data = in; parts.size = CFG_NP; parts.cap = NPMAX;
  struct TbfTree t;
  TbfTree__ctor__std_vector_std_array_double_2(&t, &cfg, &parts, CFG_BS, CFG_MODE);
  check_tree(&t, in, CFG_NP, CFG_BS, CFG_MODE, 1);
  struct TbfAlgorithm algo;
  algo.configuration.treeHeight = HEIGHT; algo.stopUpperLevel = 2; ghost_cfg_equal = 1;
  ALGO_execute(&algo, &t, 63);
  check_results(&t, 1);
#ifdef CFG_MOVE
  /* C13: move particle 0 to another grid position in place, rebuild, execute again */
  {
    long moved = 0;
    for(long g = 0; g < NLEAF; ++g) if(g < (long)t.particleGroups.size) {
      PartGroup *pg = &t.particleGroups.data[g];
      for(long l = 0; l < NLEAF; ++l) if(l < PG_HDR(pg)->nbLeaves) {
        struct std_array_double_p_2 dp = TbfParticlesContainer__getParticleData(pg, l);
        for(long k = 0; k < NPMAX; ++k) if(k < PG_LEAVES(pg)[l].nbParticles && PG_PIDX(pg)[PG_LEAVES(pg)[l].offSet + k] == 0) { dp.d[0][k] = POSOF(CFG_MOVE); moved++; }
      }
    }
    __CPROVER_assert(moved == 1, "harness: particle 0 found once");
    g_count[leaf_of_code(g_poscode[0])]--; g_count[leaf_of_code(CFG_MOVE)]++;
    g_poscode[0] = CFG_MOVE; in[0].d[0] = POSOF(CFG_MOVE);
  }
#endif
  long before[NPMAX][NBRHS], after[NPMAX][NBRHS];
  collect_rhs(&t, before);
  TbfTree__rebuild(&t);
  /* C13: same structural guarantees as a fresh build from the (edited) particles; identity and data kept; cells reset */
  check_tree(&t, in, CFG_NP, CFG_BS, CFG_MODE, 0);
  collect_rhs(&t, after);
  for(long p = 0; p < CFG_NP; ++p) for(long s = 0; s < NBRHS; ++s) __CPROVER_assert(after[p][s] == before[p][s], "C13: rebuild keeps every particle's accumulated results under its original index");
  ALGO_execute(&algo, &t, 63);
  collect_rhs(&t, after);
  for(long p = 0; p < CFG_NP; ++p) for(long s = 0; s < NLEAF; ++s)
    __CPROVER_assert(after[p][s] == before[p][s] + (s == leaf_of_code(g_poscode[p]) ? g_count[s] - 1 : g_count[s]), "C13: an execution after rebuild adds exactly one more full interaction to the preserved results");
  CANARY();
}
#endif
