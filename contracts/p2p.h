/* p2p.h - contracts for the scalar direct-interaction routines of FP2PR (src/kernels/P2P/FP2PR.hpp), C20 / C15.
 * Floating point is IEEE bit-precise (CBMC float theory).  The square root is an uninterpreted function
 * __verif_sqrt_<T> (deterministic, otherwise arbitrary): every statement below holds for ANY sqrt; the
 * exact-domain lemma additionally assumes the one instance sqrt(2^-2a) == 2^-a it uses.
 * Not decided (floating-point error analysis): agreement with an extended-precision evaluation on arbitrary inputs. */
#ifdef SPEC_PART_MODEL
#include "prelude.h"
#define CAT_(a, b) a##b
#define CAT(a, b) CAT_(a, b)
#define VSQRT CAT(__verif_sqrt_, REAL)
#define ARRC CAT(CAT(std_array_c, REAL), _p_4)
#define ARRM CAT(CAT(std_array_, REAL), _p_4)
REAL CAT(__CPROVER_uninterpreted_sqrt_, REAL)(REAL);
static inline REAL VSQRT(REAL x) { return CAT(__CPROVER_uninterpreted_sqrt_, REAL)(x); }
#endif

#ifdef SPEC_PART_CONTRACTS
/* the elementary update of the property text, in the operation order of one pair (spec function, from the
 * statement: potential q_j * (1/r), force q_i q_j (x_j - x_i) * (1/r^2)(1/r)) */
struct pair_upd { REAL fx, fy, fz, pot; };
static inline struct pair_upd spec_pair(REAL sx, REAL sy, REAL sz, REAL sq, REAL tx, REAL ty, REAL tz, REAL tq)
{
  struct pair_upd u;
  REAL dx = sx - tx, dy = sy - ty, dz = sz - tz;
  REAL inv_r2 = (REAL)1.0 / (dx * dx + dy * dy + dz * dz);
  REAL inv_r = VSQRT(inv_r2);
  REAL k = (inv_r2 * inv_r) * (tq * sq);
  u.fx = dx * k; u.fy = dy * k; u.fz = dz * k; u.pot = inv_r * sq;
  return u;
}
#define SAME(a, b) (__CPROVER_isnanf((float)(a)) ? __CPROVER_isnanf((float)(b)) : (a) == (b))

void P2P_NonMutualParticles(const REAL sourceX, const REAL sourceY, const REAL sourceZ, const REAL sourcePhysicalValue,
                            const REAL targetX, const REAL targetY, const REAL targetZ, const REAL targetPhysicalValue,
                            REAL *targetForceX, REAL *targetForceY, REAL *targetForceZ, REAL *targetPotential)
__CPROVER_requires(__CPROVER_w_ok(targetForceX, sizeof(REAL)) && __CPROVER_w_ok(targetForceY, sizeof(REAL)) && __CPROVER_w_ok(targetForceZ, sizeof(REAL)) && __CPROVER_w_ok(targetPotential, sizeof(REAL)))
__CPROVER_ensures(SAME(*targetForceX, __CPROVER_old(*targetForceX) + spec_pair(sourceX, sourceY, sourceZ, sourcePhysicalValue, targetX, targetY, targetZ, targetPhysicalValue).fx))
__CPROVER_ensures(SAME(*targetForceY, __CPROVER_old(*targetForceY) + spec_pair(sourceX, sourceY, sourceZ, sourcePhysicalValue, targetX, targetY, targetZ, targetPhysicalValue).fy))
__CPROVER_ensures(SAME(*targetForceZ, __CPROVER_old(*targetForceZ) + spec_pair(sourceX, sourceY, sourceZ, sourcePhysicalValue, targetX, targetY, targetZ, targetPhysicalValue).fz))
__CPROVER_ensures(SAME(*targetPotential, __CPROVER_old(*targetPotential) + spec_pair(sourceX, sourceY, sourceZ, sourcePhysicalValue, targetX, targetY, targetZ, targetPhysicalValue).pot))
__CPROVER_assigns(*targetForceX, *targetForceY, *targetForceZ, *targetPotential);

void P2P_MutualParticles(const REAL sourceX, const REAL sourceY, const REAL sourceZ, const REAL sourcePhysicalValue,
                         REAL *sourceForceX, REAL *sourceForceY, REAL *sourceForceZ, REAL *sourcePotential,
                         const REAL targetX, const REAL targetY, const REAL targetZ, const REAL targetPhysicalValue,
                         REAL *targetForceX, REAL *targetForceY, REAL *targetForceZ, REAL *targetPotential)
__CPROVER_requires(__CPROVER_w_ok(targetForceX, sizeof(REAL)) && __CPROVER_w_ok(targetForceY, sizeof(REAL)) && __CPROVER_w_ok(targetForceZ, sizeof(REAL)) && __CPROVER_w_ok(targetPotential, sizeof(REAL)))
__CPROVER_requires(__CPROVER_w_ok(sourceForceX, sizeof(REAL)) && __CPROVER_w_ok(sourceForceY, sizeof(REAL)) && __CPROVER_w_ok(sourceForceZ, sizeof(REAL)) && __CPROVER_w_ok(sourcePotential, sizeof(REAL)))
__CPROVER_requires(targetForceX != sourceForceX && targetForceY != sourceForceY && targetForceZ != sourceForceZ && targetPotential != sourcePotential)
__CPROVER_ensures(SAME(*targetForceX, __CPROVER_old(*targetForceX) + spec_pair(sourceX, sourceY, sourceZ, sourcePhysicalValue, targetX, targetY, targetZ, targetPhysicalValue).fx))
__CPROVER_ensures(SAME(*targetForceY, __CPROVER_old(*targetForceY) + spec_pair(sourceX, sourceY, sourceZ, sourcePhysicalValue, targetX, targetY, targetZ, targetPhysicalValue).fy))
__CPROVER_ensures(SAME(*targetForceZ, __CPROVER_old(*targetForceZ) + spec_pair(sourceX, sourceY, sourceZ, sourcePhysicalValue, targetX, targetY, targetZ, targetPhysicalValue).fz))
__CPROVER_ensures(SAME(*targetPotential, __CPROVER_old(*targetPotential) + spec_pair(sourceX, sourceY, sourceZ, sourcePhysicalValue, targetX, targetY, targetZ, targetPhysicalValue).pot))
/* the source side receives the equal and opposite force and the potential of the target's charge */
__CPROVER_ensures(SAME(*sourceForceX, __CPROVER_old(*sourceForceX) - spec_pair(sourceX, sourceY, sourceZ, sourcePhysicalValue, targetX, targetY, targetZ, targetPhysicalValue).fx))
__CPROVER_ensures(SAME(*sourceForceY, __CPROVER_old(*sourceForceY) - spec_pair(sourceX, sourceY, sourceZ, sourcePhysicalValue, targetX, targetY, targetZ, targetPhysicalValue).fy))
__CPROVER_ensures(SAME(*sourceForceZ, __CPROVER_old(*sourceForceZ) - spec_pair(sourceX, sourceY, sourceZ, sourcePhysicalValue, targetX, targetY, targetZ, targetPhysicalValue).fz))
__CPROVER_ensures(SAME(*sourcePotential, __CPROVER_old(*sourcePotential) + VSQRT((REAL)1.0 / ((sourceX - targetX) * (sourceX - targetX) + (sourceY - targetY) * (sourceY - targetY) + (sourceZ - targetZ) * (sourceZ - targetZ))) * targetPhysicalValue))
__CPROVER_assigns(*targetForceX, *targetForceY, *targetForceZ, *targetPotential, *sourceForceX, *sourceForceY, *sourceForceZ, *sourcePotential);
#endif

#ifdef SPEC_PART_HARNESS
REAL nondet_real(void);
/*@ harness h_nonmutual enforce=P2P_NonMutualParticles solver=cvc5-fpa props=C20,C15 timeout=1200 */
void h_nonmutual(void)
{
  REAL in[8]; REAL fx, fy, fz, po;
  P2P_NonMutualParticles(in[0], in[1], in[2], in[3], in[4], in[5], in[6], in[7], &fx, &fy, &fz, &po);
  CANARY();
}
/*@ harness h_mutual enforce=P2P_MutualParticles solver=cvc5-fpa props=C20,C15 timeout=1200 */
void h_mutual(void)
{
  REAL in[8]; REAL fx, fy, fz, po, sfx, sfy, sfz, spo;
  P2P_MutualParticles(in[0], in[1], in[2], in[3], &sfx, &sfy, &sfz, &spo, in[4], in[5], in[6], in[7], &fx, &fy, &fz, &po);
  CANARY();
}
/* symmetry: starting from zero accumulators the mutual routine leaves exactly opposite forces, and it is
 * bit-for-bit equivalent to two one-sided calls (source->target and target->source) */
/*@ harness lemma_mutual_symmetry replace=P2P_MutualParticles,P2P_NonMutualParticles solver=cvc5-fpa props=C20 timeout=600 */
void lemma_mutual_symmetry(void)
{
  REAL sx, sy, sz, sq, tx, ty, tz, tq;
  REAL a[4] = {0, 0, 0, 0}, b[4] = {0, 0, 0, 0}, c[4] = {0, 0, 0, 0};
  P2P_MutualParticles(sx, sy, sz, sq, &a[0], &a[1], &a[2], &a[3], tx, ty, tz, tq, &b[0], &b[1], &b[2], &b[3]);
  for(int k = 0; k < 3; ++k) __CPROVER_assert(SAME(a[k], -b[k]), "C20: the mutual routine updates both sides with equal and opposite forces");
  P2P_NonMutualParticles(sx, sy, sz, sq, tx, ty, tz, tq, &c[0], &c[1], &c[2], &c[3]);
  for(int k = 0; k < 4; ++k) __CPROVER_assert(SAME(b[k], c[k]), "C20: mutual == one-sided call on the target side, bit for bit");
  CANARY();
}
/* the source side of the mutual routine equals a one-sided call with the roles swapped (needs the IEEE identities
 * a-b == -(b-a), x*y == y*x bit for bit): heavy, thorough tier only */
/*@ harness lemma_mutual_swapped replace=P2P_MutualParticles,P2P_NonMutualParticles tier=thorough props=C20 timeout=3000 */
void lemma_mutual_swapped(void)
{
  REAL sx, sy, sz, sq, tx, ty, tz, tq;
  REAL a[4] = {0, 0, 0, 0}, b[4] = {0, 0, 0, 0}, d[4] = {0, 0, 0, 0};
  P2P_MutualParticles(sx, sy, sz, sq, &a[0], &a[1], &a[2], &a[3], tx, ty, tz, tq, &b[0], &b[1], &b[2], &b[3]);
  P2P_NonMutualParticles(tx, ty, tz, tq, sx, sy, sz, sq, &d[0], &d[1], &d[2], &d[3]);
  for(int k = 0; k < 4; ++k) __CPROVER_assert(SAME(a[k], d[k]), "C20: mutual == one-sided call on the source side, bit for bit");
  CANARY();
}
/* sign and scaling on an exactly representable sub-domain: source on the x axis at distance 2^e from the target,
 * charges powers of two; with sqrt(2^-2e) == 2^-e the potential is q_j / r and the force q_i q_j (x_j - x_i) / r^3 exactly */
/*@ harness lemma_exact_domain replace=P2P_NonMutualParticles unwind=14 props=C20 timeout=1200 */
void lemma_exact_domain(void)
{
  int e, qa, qb; _Bool neg, negq;
  __CPROVER_assume(-6 <= e && e <= 6 && -4 <= qa && qa <= 4 && -4 <= qb && qb <= 4);
  REAL r = 1, qi = 1, qj = 1;
  for(int k = 0; k < 6; ++k) { if(k < e) r *= 2; if(k < -e) r /= 2; }
  for(int k = 0; k < 4; ++k) { if(k < qa) qi *= 2; if(k < -qa) qi /= 2; if(k < qb) qj *= 2; if(k < -qb) qj /= 2; }
  if(negq) qj = -qj;
  REAL xj = neg ? -r : r;                       /* x_j - x_i, the target sits at the origin */
  __CPROVER_assume(VSQRT((REAL)1.0 / (r * r)) == (REAL)1.0 / r);   /* the one sqrt instance used */
  REAL f[4] = {0, 0, 0, 0};
  P2P_NonMutualParticles(xj, 0, 0, qj, 0, 0, 0, qi, &f[0], &f[1], &f[2], &f[3]);
  __CPROVER_assert(f[3] == qj / r, "C20: potential is q_j / r");
  __CPROVER_assert(f[0] == qi * qj * xj / (r * r * r) && f[1] == 0 && f[2] == 0, "C20: force is q_i q_j (x_j - x_i) / r^3");
  CANARY();
}
#endif
