/* p2p.h - contracts for the scalar direct-interaction routines of FP2PR (src/kernels/P2P/FP2PR.hpp), C20 / C15.
 * Floating point is IEEE bit-precise (CBMC float theory).  The square root is an uninterpreted function
 * __verif_sqrt_<T> (deterministic, otherwise arbitrary): every statement below holds for ANY sqrt; the
 * exact-domain lemma additionally assumes the one instance sqrt(2^-2a) == 2^-a it uses.
 * Not decided (floating-point error analysis): agreement with an extended-precision evaluation on arbitrary inputs. */
#ifdef SPEC_PART_MODEL
#include "prelude.h"
#define CAT_(a, b) a##b
#define CAT(a, b) CAT_(a, b)
#define VSQRT CAT(__verif_sqrt_, REAL)
#define ARRC CAT(CAT(std_array_c, REAL), _p_4)
#define ARRM CAT(CAT(std_array_, REAL), _p_4)
REAL CAT(__CPROVER_uninterpreted_sqrt_, REAL)(REAL);
static inline REAL VSQRT(REAL x) { return CAT(__CPROVER_uninterpreted_sqrt_, REAL)(x); }
#endif

#ifdef SPEC_PART_CONTRACTS
/* the elementary update of the property text, in the operation order of one pair (spec function, from the
 * statement: potential q_j * (1/r), force q_i q_j (x_j - x_i) * (1/r^2)(1/r)) */
struct pair_upd { REAL fx, fy, fz, pot; };
static inline struct pair_upd spec_pair(REAL sx, REAL sy, REAL sz, REAL sq, REAL tx, REAL ty, REAL tz, REAL tq)
{
  struct pair_upd u;
  REAL dx = sx - tx, dy = sy - ty, dz = sz - tz;
  REAL inv_r2 = (REAL)1.0 / (dx * dx + dy * dy + dz * dz);
  REAL inv_r = VSQRT(inv_r2);
  REAL k = (inv_r2 * inv_r) * (tq * sq);
  u.fx = dx * k; u.fy = dy * k; u.fz = dz * k; u.pot = inv_r * sq;
  return u;
}
#define SAME(a, b) (__CPROVER_isnanf((float)(a)) ? __CPROVER_isnanf((float)(b)) : (a) == (b))

void P2P_NonMutualParticles(const REAL sourceX, const REAL sourceY, const REAL sourceZ, const REAL sourcePhysicalValue,
                            const REAL targetX, const REAL targetY, const REAL targetZ, const REAL targetPhysicalValue,
                            REAL *targetForceX, REAL *targetForceY, REAL *targetForceZ, REAL *targetPotential)
__CPROVER_requires(__CPROVER_w_ok(targetForceX, sizeof(REAL)) && __CPROVER_w_ok(targetForceY, sizeof(REAL)) && __CPROVER_w_ok(targetForceZ, sizeof(REAL)) && __CPROVER_w_ok(targetPotential, sizeof(REAL)))
__CPROVER_ensures(SAME(*targetForceX, __CPROVER_old(*targetForceX) + spec_pair(sourceX, sourceY, sourceZ, sourcePhysicalValue, targetX, targetY, targetZ, targetPhysicalValue).fx))
__CPROVER_ensures(SAME(*targetForceY, __CPROVER_old(*targetForceY) + spec_pair(sourceX, sourceY, sourceZ, sourcePhysicalValue, targetX, targetY, targetZ, targetPhysicalValue).fy))
__CPROVER_ensures(SAME(*targetForceZ, __CPROVER_old(*targetForceZ) + spec_pair(sourceX, sourceY, sourceZ, sourcePhysicalValue, targetX, targetY, targetZ, targetPhysicalValue).fz))
__CPROVER_ensures(SAME(*targetPotential, __CPROVER_old(*targetPotential) + spec_pair(sourceX, sourceY, sourceZ, sourcePhysicalValue, targetX, targetY, targetZ, targetPhysicalValue).pot))
__CPROVER_assigns(*targetForceX, *targetForceY, *targetForceZ, *targetPotential);

void P2P_MutualParticles(const REAL sourceX, const REAL sourceY, const REAL sourceZ, const REAL sourcePhysicalValue,
                         REAL *sourceForceX, REAL *sourceForceY, REAL *sourceForceZ, REAL *sourcePotential,
                         const REAL targetX, const REAL targetY, const REAL targetZ, const REAL targetPhysicalValue,
                         REAL *targetForceX, REAL *targetForceY, REAL *targetForceZ, REAL *targetPotential)
__CPROVER_requires(__CPROVER_w_ok(targetForceX, sizeof(REAL)) && __CPROVER_w_ok(targetForceY, sizeof(REAL)) && __CPROVER_w_ok(targetForceZ, sizeof(REAL)) && __CPROVER_w_ok(targetPotential, sizeof(REAL)))
__CPROVER_requires(__CPROVER_w_ok(sourceForceX, sizeof(REAL)) && __CPROVER_w_ok(sourceForceY, sizeof(REAL)) && __CPROVER_w_ok(sourceForceZ, sizeof(REAL)) && __CPROVER_w_ok(sourcePotential, sizeof(REAL)))
__CPROVER_requires(targetForceX != sourceForceX && targetForceY != sourceForceY && targetForceZ != sourceForceZ && targetPotential != sourcePotential)
__CPROVER_ensures(SAME(*targetForceX, __CPROVER_old(*targetForceX) + spec_pair(sourceX, sourceY, sourceZ, sourcePhysicalValue, targetX, targetY, targetZ, targetPhysicalValue).fx))
__CPROVER_ensures(SAME(*targetForceY, __CPROVER_old(*targetForceY) + spec_pair(sourceX, sourceY, sourceZ, sourcePhysicalValue, targetX, targetY, targetZ, targetPhysicalValue).fy))
__CPROVER_ensures(SAME(*targetForceZ, __CPROVER_old(*targetForceZ) + spec_pair(sourceX, sourceY, sourceZ, sourcePhysicalValue, targetX, targetY, targetZ, targetPhysicalValue).fz))
__CPROVER_ensures(SAME(*targetPotential, __CPROVER_old(*targetPotential) + spec_pair(sourceX, sourceY, sourceZ, sourcePhysicalValue, targetX, targetY, targetZ, targetPhysicalValue).pot))
/* the source side receives the equal and opposite force and the potential of the target's charge */
__CPROVER_ensures(SAME(*sourceForceX, __CPROVER_old(*sourceForceX) - spec_pair(sourceX, sourceY, sourceZ, sourcePhysicalValue, targetX, targetY, targetZ, targetPhysicalValue).fx))
__CPROVER_ensures(SAME(*sourceForceY, __CPROVER_old(*sourceForceY) - spec_pair(sourceX, sourceY, sourceZ, sourcePhysicalValue, targetX, targetY, targetZ, targetPhysicalValue).fy))
__CPROVER_ensures(SAME(*sourceForceZ, __CPROVER_old(*sourceForceZ) - spec_pair(sourceX, sourceY, sourceZ, sourcePhysicalValue, targetX, targetY, targetZ, targetPhysicalValue).fz))
__CPROVER_ensures(SAME(*sourcePotential, __CPROVER_old(*sourcePotential) + VSQRT((REAL)1.0 / ((sourceX - targetX) * (sourceX - targetX) + (sourceY - targetY) * (sourceY - targetY) + (sourceZ - targetZ) * (sourceZ - targetZ))) * targetPhysicalValue))
__CPROVER_assigns(*targetForceX, *targetForceY, *targetForceZ, *targetPotential, *sourceForceX, *sourceForceY, *sourceForceZ, *sourcePotential);
#endif

#ifdef SPEC_PART_HARNESS
REAL nondet_real(void);
#ifndef CFG_NS
#define CFG_NS 1
#endif
#ifndef CFG_NT
#define CFG_NT 1
#endif
/*@ harness h_nonmutual enforce=P2P_NonMutualParticles solver=cvc5-fpa props=C20,C15 timeout=1200 */
void h_nonmutual(void)
{
  REAL in[8]; REAL fx, fy, fz, po;
  P2P_NonMutualParticles(in[0], in[1], in[2], in[3], in[4], in[5], in[6], in[7], &fx, &fy, &fz, &po);
  CANARY();
}
/*@ harness h_mutual enforce=P2P_MutualParticles solver=cvc5-fpa props=C20,C15 timeout=1200 */
void h_mutual(void)
{
  REAL in[8]; REAL fx, fy, fz, po, sfx, sfy, sfz, spo;
  P2P_MutualParticles(in[0], in[1], in[2], in[3], &sfx, &sfy, &sfz, &spo, in[4], in[5], in[6], in[7], &fx, &fy, &fz, &po);
  CANARY();
}
/* symmetry: starting from zero accumulators the mutual routine leaves exactly opposite forces, and it is
 * bit-for-bit equivalent to two one-sided calls (source->target and target->source) */
/*@ harness lemma_mutual_symmetry replace=P2P_MutualParticles,P2P_NonMutualParticles solver=cvc5-fpa props=C20 timeout=600 */
void lemma_mutual_symmetry(void)
{
  REAL sx, sy, sz, sq, tx, ty, tz, tq;
  REAL a[4] = {0, 0, 0, 0}, b[4] = {0, 0, 0, 0}, c[4] = {0, 0, 0, 0};
  P2P_MutualParticles(sx, sy, sz, sq, &a[0], &a[1], &a[2], &a[3], tx, ty, tz, tq, &b[0], &b[1], &b[2], &b[3]);
  for(int k = 0; k < 3; ++k) __CPROVER_assert(SAME(a[k], -b[k]), "C20: the mutual routine updates both sides with equal and opposite forces");
  P2P_NonMutualParticles(sx, sy, sz, sq, tx, ty, tz, tq, &c[0], &c[1], &c[2], &c[3]);
  for(int k = 0; k < 4; ++k) __CPROVER_assert(SAME(b[k], c[k]), "C20: mutual == one-sided call on the target side, bit for bit");
  CANARY();
}
/* the source side of the mutual routine equals a one-sided call with the roles swapped (needs the IEEE identities
 * a-b == -(b-a), x*y == y*x bit for bit): heavy, thorough tier only */
/*@ harness lemma_mutual_swapped replace=P2P_MutualParticles,P2P_NonMutualParticles tier=never props=C20 timeout=3000 */
void lemma_mutual_swapped(void)
{
  REAL sx, sy, sz, sq, tx, ty, tz, tq;
  REAL a[4] = {0, 0, 0, 0}, b[4] = {0, 0, 0, 0}, d[4] = {0, 0, 0, 0};
  P2P_MutualParticles(sx, sy, sz, sq, &a[0], &a[1], &a[2], &a[3], tx, ty, tz, tq, &b[0], &b[1], &b[2], &b[3]);
  P2P_NonMutualParticles(tx, ty, tz, tq, sx, sy, sz, sq, &d[0], &d[1], &d[2], &d[3]);
  for(int k = 0; k < 4; ++k) __CPROVER_assert(SAME(a[k], d[k]), "C20: mutual == one-sided call on the source side, bit for bit");
  CANARY();
}

/* ---- the loop routines: BOUNDED stand-in (<= 2 sources x <= 2 targets, <= 3 particles for the inner routine),
 * real extracted bodies, complete unwinding, all coordinates / charges / initial accumulators symbolic.
 * The expected result is built from the single-pair specification spec_pair in the documented accumulation order
 * (per target: partial sums over the sources, then one update of the target; sources updated pair by pair). */
static void mk_vals(struct ARRC *v, const REAL col[4][3]) { for(int k = 0; k < 4; ++k) v->d[k] = col[k]; }
static void mk_rhs(struct ARRM *v, REAL col[4][3]) { for(int k = 0; k < 4; ++k) v->d[k] = col[k]; }

/*@ harness bounded_full_mutual plain=1 unwind=6 enumerate=CFG_NS:0..2;CFG_NT:0..2 solver=cvc5-fpa bounded=sources<=2,targets<=2 props=C20,C15 timeout=900 */
void bounded_full_mutual(void)
{
  REAL s[4][3], t[4][3], sr[4][3], tr[4][3], es[4][3], et[4][3]; const long ns = CFG_NS, nt = CFG_NT;
  for(int k = 0; k < 4; ++k) for(int i = 0; i < 3; ++i) { es[k][i] = sr[k][i]; et[k][i] = tr[k][i]; }
  for(long it = 0; it < 2; ++it) if(it < nt) {
    REAL f[4] = {0, 0, 0, 0};
    for(long is = 0; is < 2; ++is) if(is < ns) {
      struct pair_upd u = spec_pair(s[0][is], s[1][is], s[2][is], s[3][is], t[0][it], t[1][it], t[2][it], t[3][it]);
      f[0] += u.fx; f[1] += u.fy; f[2] += u.fz; f[3] += u.pot;
      es[0][is] -= u.fx; es[1][is] -= u.fy; es[2][is] -= u.fz;
      es[3][is] += VSQRT((REAL)1.0 / ((s[0][is] - t[0][it]) * (s[0][is] - t[0][it]) + (s[1][is] - t[1][it]) * (s[1][is] - t[1][it]) + (s[2][is] - t[2][it]) * (s[2][is] - t[2][it]))) * t[3][it];
    }
    for(int k = 0; k < 4; ++k) et[k][it] += f[k];
  }
  struct ARRC sv, tv; struct ARRM srv, trv;
  mk_vals(&sv, s); mk_vals(&tv, t); mk_rhs(&srv, sr); mk_rhs(&trv, tr);
  P2P_FullMutualScalar(&sv, &srv, ns, &tv, &trv, nt);
  for(int k = 0; k < 4; ++k) for(long i = 0; i < 2; ++i) {
    if(i < nt) __CPROVER_assert(SAME(tr[k][i], et[k][i]), "C20: mutual loop: every target accumulates the elementary update of every source, once");
    if(i < ns) __CPROVER_assert(SAME(sr[k][i], es[k][i]), "C20: mutual loop: every source receives the opposite force and the potential of the target's charge");
  }
  CANARY();
}
/*@ harness bounded_full_remote plain=1 unwind=6 enumerate=CFG_NS:0..2;CFG_NT:0..2 solver=cvc5-fpa bounded=sources<=2,targets<=2 props=C20,C15 timeout=900 */
void bounded_full_remote(void)
{
  REAL s[4][3], t[4][3], tr[4][3], et[4][3]; const long ns = CFG_NS, nt = CFG_NT;
  for(int k = 0; k < 4; ++k) for(int i = 0; i < 3; ++i) et[k][i] = tr[k][i];
  for(long it = 0; it < 2; ++it) if(it < nt) {
    REAL f[4] = {0, 0, 0, 0};
    for(long is = 0; is < 2; ++is) if(is < ns) {
      struct pair_upd u = spec_pair(s[0][is], s[1][is], s[2][is], s[3][is], t[0][it], t[1][it], t[2][it], t[3][it]);
      f[0] += u.fx; f[1] += u.fy; f[2] += u.fz; f[3] += u.pot;
    }
    for(int k = 0; k < 4; ++k) et[k][it] += f[k];
  }
  REAL s0[4][3]; for(int k = 0; k < 4; ++k) for(int i = 0; i < 3; ++i) s0[k][i] = s[k][i];
  struct ARRC sv, tv; struct ARRM trv;
  mk_vals(&sv, s); mk_vals(&tv, t); mk_rhs(&trv, tr);
  P2P_GenericFullRemoteScalar(&sv, ns, &tv, &trv, nt);
  for(int k = 0; k < 4; ++k) for(long i = 0; i < 2; ++i) if(i < nt) __CPROVER_assert(SAME(tr[k][i], et[k][i]), "C20: remote loop: every target accumulates the elementary update of every source, once");
  for(int k = 0; k < 4; ++k) for(int i = 0; i < 3; ++i) __CPROVER_assert(SAME(s[k][i], s0[k][i]), "C20: remote loop writes target results only");
  CANARY();
}
/*@ harness bounded_inner plain=1 unwind=6 enumerate=CFG_NT:0..3 solver=cvc5-fpa bounded=particles<=3 props=C20,C15 timeout=900 */
void bounded_inner(void)
{
  REAL t[4][3], tr[4][3], et[4][3]; const long n = CFG_NT;
  for(int k = 0; k < 4; ++k) for(int i = 0; i < 3; ++i) et[k][i] = tr[k][i];
  for(long i = 0; i < 3; ++i) for(long j = i + 1; j < 3; ++j) if(j < n) {
    /* every unordered pair once, never the self term; i plays the target, j the source */
    struct pair_upd u = spec_pair(t[0][j], t[1][j], t[2][j], t[3][j], t[0][i], t[1][i], t[2][i], t[3][i]);
    et[0][i] += u.fx; et[1][i] += u.fy; et[2][i] += u.fz; et[3][i] += u.pot;
    et[0][j] -= u.fx; et[1][j] -= u.fy; et[2][j] -= u.fz;
    et[3][j] += VSQRT((REAL)1.0 / ((t[0][j] - t[0][i]) * (t[0][j] - t[0][i]) + (t[1][j] - t[1][i]) * (t[1][j] - t[1][i]) + (t[2][j] - t[2][i]) * (t[2][j] - t[2][i]))) * t[3][i];
  }
  struct ARRC tv; struct ARRM trv;
  mk_vals(&tv, t); mk_rhs(&trv, tr);
  P2P_GenericInnerScalar(&tv, &trv, n);
  for(int k = 0; k < 4; ++k) for(long i = 0; i < 3; ++i) if(i < n) __CPROVER_assert(SAME(tr[k][i], et[k][i]), "C20: in-leaf loop: every unordered pair of distinct particles interacts exactly once, no self term");
  CANARY();
}

/* sign and scaling on an exactly representable sub-domain: source on the x axis at distance 2^e from the target,
 * charges powers of two; with sqrt(2^-2e) == 2^-e the potential is q_j / r and the force q_i q_j (x_j - x_i) / r^3 exactly */
/*@ harness lemma_exact_domain replace=P2P_NonMutualParticles unwind=14 props=C20 timeout=1200 */
void lemma_exact_domain(void)
{
  int e, qa, qb; _Bool neg, negq;
  __CPROVER_assume(-6 <= e && e <= 6 && -4 <= qa && qa <= 4 && -4 <= qb && qb <= 4);
  REAL r = 1, qi = 1, qj = 1;
  for(int k = 0; k < 6; ++k) { if(k < e) r *= 2; if(k < -e) r /= 2; }
  for(int k = 0; k < 4; ++k) { if(k < qa) qi *= 2; if(k < -qa) qi /= 2; if(k < qb) qj *= 2; if(k < -qb) qj /= 2; }
  if(negq) qj = -qj;
  REAL xj = neg ? -r : r;                       /* x_j - x_i, the target sits at the origin */
  __CPROVER_assume(VSQRT((REAL)1.0 / (r * r)) == (REAL)1.0 / r);   /* the one sqrt instance used */
  REAL f[4] = {0, 0, 0, 0};
  P2P_NonMutualParticles(xj, 0, 0, qj, 0, 0, 0, qi, &f[0], &f[1], &f[2], &f[3]);
  __CPROVER_assert(f[3] == qj / r, "C20: potential is q_j / r");
  __CPROVER_assert(f[0] == qi * qj * xj / (r * r * r) && f[1] == 0 && f[2] == 0, "C20: force is q_i q_j (x_j - x_i) / r^3");
  CANARY();
}
#endif
