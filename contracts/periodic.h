/* periodic.h - C10 components: position shifter (src/utils/tbfperiodicshifter.hpp) and the repetition
 * arithmetic of the periodic top tree (src/algorithms/periodic/tbfalgorithmperiodictoptree.hpp). */
#ifdef SPEC_PART_MODEL
#include "prelude.h"
#include "stl_model.h"
#define CAT_(a, b) a##b
#define CAT(a, b) CAT_(a, b)
#define ARRL CAT(std_array_long_, DIM)
#define ARRD CAT(std_array_double_, DIM)
#endif
#ifdef SPEC_PART_CONTRACTS
#define HMAX 40
/* the source leaf is the periodic image of target + offset: the precondition under which the shifter is called */
static inline _Bool spec_is_wrapped_neighbor(const long *src, const long *tgt, const long *off, long lim)
{
  for(long d = 0; d < DIM; ++d) {
    long x = tgt[d] + off[d];
    long w = x < 0 ? x + lim : (x >= lim ? x - lim : x);
    if(src[d] != w) return 0;
  }
  return 1;
}
static inline long spec_digit3(long code, long d) { long c = code; for(long k = DIM - 1; k > d; --k) c /= 3; return (c % 3) - 1; }
#define LEAFLIM(cfg) (1L << ((cfg)->configuration.treeHeight - 1))
#define SHIFT_PRE(s, t, cfg, code) (__CPROVER_r_ok(s, sizeof(*(s))) && __CPROVER_r_ok(t, sizeof(*(t))) && __CPROVER_r_ok(cfg, sizeof(*(cfg))) && \
   1 <= (cfg)->configuration.treeHeight && (cfg)->configuration.treeHeight <= HMAX && 0 <= (code) && (code) < spec_pow3() && spec_coords_in(t, LEAFLIM(cfg)))
static inline long spec_pow3(void) { long r = 1; for(long d = 0; d < DIM; ++d) r *= 3; return r; }
static inline _Bool spec_coords_in(const struct VerifSymb *t, long lim) { for(long d = 0; d < DIM; ++d) if(t->boxCoord.d[d] < 0 || t->boxCoord.d[d] >= lim) return 0; return 1; }
static inline _Bool spec_src_ok(const struct VerifSymb *s, const struct VerifSymb *t, long code, long lim)
{
  long off[DIM]; for(long d = 0; d < DIM; ++d) off[d] = spec_digit3(code, d);
  return spec_is_wrapped_neighbor(s->boxCoord.d, t->boxCoord.d, off, lim);
}

/* shift[d] = -width_d / +width_d / 0 exactly in the dimensions where target+offset leaves the box below / above / not */
struct ARRD SH_GetShiftCoef(const struct VerifSymb *inSymSrc, const struct VerifSymb *inSymTgt, const struct TbfMortonSpaceIndex *inConfig, const long inIndexArray)
__CPROVER_requires(SHIFT_PRE(inSymSrc, inSymTgt, inConfig, inIndexArray) && spec_src_ok(inSymSrc, inSymTgt, inIndexArray, LEAFLIM(inConfig)))
__CPROVER_ensures(spec_shift_is(__CPROVER_return_value.d, inSymTgt, inConfig, inIndexArray))
__CPROVER_assigns();

static inline _Bool spec_shift_is(const double *sh, const struct VerifSymb *t, const struct TbfMortonSpaceIndex *cfg, long code)
{
  for(long d = 0; d < DIM; ++d) {
    long x = t->boxCoord.d[d] + spec_digit3(code, d);
    double w = cfg->configuration.boxWidths.d[d];
    double e = x < 0 ? -w : (x >= LEAFLIM(cfg) ? w : 0.0);
    if(!(sh[d] == e || (e != e && sh[d] != sh[d]))) return 0;
  }
  return 1;
}

_Bool SH_NeedToShift(const struct VerifSymb *inSymSrc, const struct VerifSymb *inSymTgt, const struct TbfMortonSpaceIndex *inConfig, const long inIndexArray)
__CPROVER_requires(SHIFT_PRE(inSymSrc, inSymTgt, inConfig, inIndexArray) && spec_src_ok(inSymSrc, inSymTgt, inIndexArray, LEAFLIM(inConfig)))
__CPROVER_ensures(__CPROVER_return_value == spec_crosses(inSymTgt, inConfig, inIndexArray))
__CPROVER_assigns();

static inline _Bool spec_crosses(const struct VerifSymb *t, const struct TbfMortonSpaceIndex *cfg, long code)
{
  for(long d = 0; d < DIM; ++d) { long x = t->boxCoord.d[d] + spec_digit3(code, d); if(x < 0 || x >= LEAFLIM(cfg)) return 1; }
  return 0;
}

/* repetition arithmetic */
long Top__GetNbRepetitionsPerDim(const long inNbLevelsAbove0)
__CPROVER_requires(-1 <= inNbLevelsAbove0 && inNbLevelsAbove0 <= 28)
__CPROVER_ensures(__CPROVER_return_value == (inNbLevelsAbove0 == -1 ? 3 : (inNbLevelsAbove0 == 0 ? 7 : 6 * (1L << inNbLevelsAbove0))))
__CPROVER_assigns();

struct std_pair_std_array_long_3_std_array_long_3;
#endif

#ifdef SPEC_PART_HARNESS
/*@ harness h_shiftcoef enforce=SH_GetShiftCoef unwind=DIM+3 props=C10,C15 */
void h_shiftcoef(void) { struct VerifSymb s, t; struct TbfMortonSpaceIndex m; long c; SH_GetShiftCoef(&s, &t, &m, c); CANARY(); }
/*@ harness h_needshift enforce=SH_NeedToShift unwind=DIM+3 props=C10,C15 */
void h_needshift(void) { struct VerifSymb s, t; struct TbfMortonSpaceIndex m; long c; SH_NeedToShift(&s, &t, &m, c); CANARY(); }
/*@ harness h_nbrep enforce=Top__GetNbRepetitionsPerDim props=C10,C15 */
void h_nbrep(void) { long l; Top__GetNbRepetitionsPerDim(l); CANARY(); }

/* the interval reported by getRepetitionsIntervals has exactly GetNbRepetitionsPerDim boxes per dimension, contains the
 * central box 0, and the total is its DIM-th power (real bodies, complete unwinding over the dimension) */
/*@ harness lemma_repetition_interval plain=1 unwind=DIM+3 props=C10,C15 */
void lemma_repetition_interval(void)
{
  struct Top top; long l;
  __CPROVER_assume(-1 <= l && l <= (DIM == 1 ? 28 : (DIM == 2 ? 20 : (DIM == 3 ? 12 : 8))));
  top.nbLevelsAbove0 = l;
  long n = Top__getNbRepetitionsPerDim(&top);
  __CPROVER_assert(n == (l == -1 ? 3 : (l == 0 ? 7 : 6 * (1L << l))), "C10: repetitions per dimension");
  struct CAT(CAT(CAT(std_pair_std_array_long_, DIM), _std_array_long_), DIM) iv = Top__getRepetitionsIntervals(&top);
  for(long d = 0; d < DIM; ++d) {
    __CPROVER_assert(iv.second.d[d] - iv.first.d[d] + 1 == n, "C10: the reported interval contains exactly the reported number of images per dimension");
    __CPROVER_assert(iv.first.d[d] <= 0 && 0 <= iv.second.d[d], "C10: the central box is inside the interval");
    __CPROVER_assert(iv.first.d[d] == iv.first.d[0] && iv.second.d[d] == iv.second.d[0], "C10: same interval in every dimension");
  }
  long tot = Top__getNbTotalRepetitions(&top), e = 1;
  for(long d = 0; d < DIM; ++d) e *= n;
  __CPROVER_assert(tot == e, "C10: total number of images is the DIM-th power");
  CANARY();
}
#endif
