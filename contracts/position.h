/* Unit "position": position -> grid coordinate (TbfMortonSpaceIndex::getTreeCoordinate, getIndexFromPosition), the
 * first step of tree construction (C06 mechanism "floor of relative position / leaf width, upper face clamped").
 * IEEE bit-precise with cvc5 --fpa. */
#ifdef SPEC_PART_MODEL
#include "prelude.h"
#endif

#ifdef SPEC_PART_CONTRACTS
typedef struct TbfMortonSpaceIndex Morton;
#define CFG(m) ((m)->configuration)
#define POS_WF(m) (1 <= CFG(m).treeHeight && CFG(m).treeHeight <= 31)
/* the statement of C06 for one coordinate: the result is the clamped integer part of rel / (leaf width of THAT
 * dimension); a point on the upper face belongs to the last cell; the result is a coordinate of the leaf grid */
long TbfMortonSpaceIndex__getTreeCoordinate(const Morton *self, const double inRelativePosition, const long inDim)
__CPROVER_requires(__CPROVER_r_ok(self, sizeof(*self)) && POS_WF(self) && 0 <= inDim && inDim < DIM)
__CPROVER_requires(inRelativePosition >= 0 && inRelativePosition <= CFG(self).boxWidths.d[inDim])
__CPROVER_requires(CFG(self).boxWidthsAtLeafLevel.d[inDim] > 0)
__CPROVER_ensures(inRelativePosition == CFG(self).boxWidths.d[inDim] ?
                    __CPROVER_return_value == (1L << (CFG(self).treeHeight - 1)) - 1 :
                    __CPROVER_return_value == (long)(inRelativePosition / CFG(self).boxWidthsAtLeafLevel.d[inDim]))
__CPROVER_assigns();
#define CAT2_(a, b) a##b
#define CAT2(a, b) CAT2_(a, b)
#define ARR_LONG CAT2(std_array_long_, DIM)
#define ARR_DBL CAT2(std_array_double_, DIM)
#define COORD(m, rel, dd) ((rel) == CFG(m).boxWidths.d[dd] ? (1L << (CFG(m).treeHeight - 1)) - 1 : (long)((rel) / CFG(m).boxWidthsAtLeafLevel.d[dd]))
long ghost_host[4]; long ghost_code; long ghost_w;
long TbfMortonSpaceIndex__getIndexFromBoxPos(const Morton *self, const struct ARR_LONG *inBoxPos)
__CPROVER_requires(__CPROVER_r_ok(inBoxPos, sizeof(*inBoxPos)))
__CPROVER_ensures(__CPROVER_return_value == ghost_code)
__CPROVER_ensures(ghost_host[0] == inBoxPos->d[0] && (DIM < 2 || ghost_host[1] == inBoxPos->d[DIM < 2 ? 0 : 1]) && (DIM < 3 || ghost_host[2] == inBoxPos->d[DIM < 3 ? 0 : 2]) && (DIM < 4 || ghost_host[3] == inBoxPos->d[DIM < 4 ? 0 : 3]))
__CPROVER_assigns(__CPROVER_object_whole(ghost_host));

/* C06: the index of a position is the index of the grid cell whose coordinate, in EVERY dimension w, is the clamped
 * integer part of (pos[w] - corner[w]) / leafWidth[w] (ghost witness w) */
long M_getIndexFromPosition(const Morton *self, const struct ARR_DBL *inPos)
__CPROVER_requires(__CPROVER_r_ok(self, sizeof(*self)) && __CPROVER_r_ok(inPos, sizeof(*inPos)) && POS_WF(self) && 0 <= ghost_w && ghost_w < DIM)
__CPROVER_requires(inPos->d[0] - CFG(self).boxCorner.d[0] >= 0 && inPos->d[0] - CFG(self).boxCorner.d[0] <= CFG(self).boxWidths.d[0] && CFG(self).boxWidthsAtLeafLevel.d[0] > 0)
#if DIM > 1
__CPROVER_requires(inPos->d[1] - CFG(self).boxCorner.d[1] >= 0 && inPos->d[1] - CFG(self).boxCorner.d[1] <= CFG(self).boxWidths.d[1] && CFG(self).boxWidthsAtLeafLevel.d[1] > 0)
#endif
#if DIM > 2
__CPROVER_requires(inPos->d[2] - CFG(self).boxCorner.d[2] >= 0 && inPos->d[2] - CFG(self).boxCorner.d[2] <= CFG(self).boxWidths.d[2] && CFG(self).boxWidthsAtLeafLevel.d[2] > 0)
#endif
#if DIM > 3
__CPROVER_requires(inPos->d[3] - CFG(self).boxCorner.d[3] >= 0 && inPos->d[3] - CFG(self).boxCorner.d[3] <= CFG(self).boxWidths.d[3] && CFG(self).boxWidthsAtLeafLevel.d[3] > 0)
#endif
__CPROVER_ensures(__CPROVER_return_value == ghost_code)
__CPROVER_ensures(ghost_host[ghost_w] == COORD(self, inPos->d[ghost_w] - CFG(self).boxCorner.d[ghost_w], ghost_w))
__CPROVER_assigns(__CPROVER_object_whole(ghost_host));
#endif

#ifdef SPEC_PART_HARNESS
/*@ harness h_tree_coordinate enforce=TbfMortonSpaceIndex__getTreeCoordinate solver=cvc5-fpa unwind=4 props=C06,C01,C09,C15 timeout=600 */
void h_tree_coordinate(void)
{
  Morton m; double rel; long dim;
  TbfMortonSpaceIndex__getTreeCoordinate(&m, rel, dim);
  CANARY();
}
/*@ harness h_index_from_position enforce=M_getIndexFromPosition replace=TbfMortonSpaceIndex__getTreeCoordinate,TbfMortonSpaceIndex__getIndexFromBoxPos solver=cvc5-fpa unwind=DIM+2 props=C06,C01,C09,C15 timeout=600 */
void h_index_from_position(void)
{
  Morton m; struct ARR_DBL pos;
  M_getIndexFromPosition(&m, &pos);
  CANARY();
}
/* range: with leafWidth = width * (1 / 2^(h-1)) as TbfSpacialConfiguration computes it, the integer part of
 * rel / leafWidth is a coordinate of the leaf grid for every 0 <= rel < width (so together with the clamp of the
 * upper face every position of the closed box gets a leaf of the grid).  Pure floating-point lemma. */
/*@ harness lemma_coordinate_in_grid solver=cvc5-fpa plain=1 unwind=2 tier=never props=C06 timeout=1200 */
void lemma_coordinate_in_grid(void)
{
  double width, rel; long h;
  __CPROVER_assume(1 <= h && h <= 31 && width > 0 && width <= 1e300 && 0 <= rel && rel < width);
  double lw = width * (1.0 / (double)(1L << (h - 1)));
  __CPROVER_assume(lw >= __verif_DBL_MIN);   /* the leaf width is a normal number (a sub-normal leaf width loses bits: counterexample width = 2.57e-300, height 29) */
  long c = (long)(rel / lw);
  __CPROVER_assert(0 <= c && c <= (1L << (h - 1)) - 1, "C06: the grid coordinate of a point of the box lies in the leaf grid");
  CANARY();
}
#endif
