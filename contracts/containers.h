/* containers.h - unit "containers": enforces the accessor and lookup contracts of groups.h (C16, C15)
 * on the bodies extracted from tbfcellscontainer.hpp / tbfparticlescontainer.hpp / tbfutils.hpp. */
#ifdef SPEC_PART_MODEL
#include "prelude.h"
#include "stl_model.h"
#endif

#define GROUPS_INTERNALS
#include "groups.h"

#ifdef SPEC_PART_CONTRACTS
#define LB_CELLS TbfUtils__lower_bound_indexes__long_TbfCellsContainer__getElementFromSpacialIndex__lam0
#define LB_PARENT TbfUtils__lower_bound_indexes__long_TbfCellsContainer__getElementFromParentIndex__lam0
#define LB_LEAVES TbfUtils__lower_bound_indexes__long_TbfParticlesContainer__getElementFromSpacialIndex__lam0
#define W_IN(n) (0 <= ghost_W && ghost_W < (n))

/* ---- TbfUtils::lower_bound_indexes, instantiated with the cells comparator "idx[i] < value" */
#define LBC_ARR(comp) ((const CellHeader *)(comp).cap_this->objectData.blockRawPtrs[1])
#define LBC_KEY(comp, k) (LBC_ARR(comp)[k].spaceIndex)
long LB_CELLS(long first, const long last, const long *value, struct TbfCellsContainer__getElementFromSpacialIndex__lam0 comp)
__CPROVER_requires(first == 0 && __CPROVER_r_ok(value, sizeof(long)) && cells_symb_wf(comp.cap_this) && last == CG_N(comp.cap_this))
__CPROVER_ensures(0 <= __CPROVER_return_value && __CPROVER_return_value <= last)
__CPROVER_ensures(__CPROVER_return_value == last || LBC_KEY(comp, __CPROVER_return_value) >= *value)
__CPROVER_ensures(__CPROVER_return_value == 0 || LBC_KEY(comp, __CPROVER_return_value - 1) < *value)
#ifdef ELIM_WF
__CPROVER_ensures(ghost_sorted_base != (const void *)LBC_ARR(comp) || !W_IN(last) || (ghost_W < __CPROVER_return_value ? LBC_KEY(comp, ghost_W) < *value : LBC_KEY(comp, ghost_W) >= *value))
#endif
__CPROVER_assigns();

#ifdef ELIM_WF
#define LBC_WINV __CPROVER_loop_invariant(ghost_sorted_base != (const void *)LBC_ARR(comp) || !W_IN(last) || ((ghost_W >= first || LBC_KEY(comp, ghost_W) < *value) && (ghost_W < first + count || LBC_KEY(comp, ghost_W) >= *value)))
#else
#define LBC_WINV
#endif
#define LC_TbfUtils__lower_bound_indexes__long_TbfCellsContainer__getElementFromSpacialIndex__lam0_0 \
  __CPROVER_assigns(first, count) \
  __CPROVER_loop_invariant(0 <= first && first <= last && 0 <= count && count <= last - first) \
  __CPROVER_loop_invariant(first + count == last || LBC_KEY(comp, first + count) >= *value) \
  __CPROVER_loop_invariant(first == 0 || LBC_KEY(comp, first - 1) < *value) \
  LBC_WINV \
  __CPROVER_decreases(count)

/* ---- ... with the parent comparator "parent(idx[i]) < value" */
#define LBP_ARR(comp) ((const CellHeader *)(comp).cap_this->objectData.blockRawPtrs[1])
#define LBP_KEY(comp, k) (LBP_ARR(comp)[k].spaceIndex >> DIM)
long LB_PARENT(long first, const long last, const long *value, struct TbfCellsContainer__getElementFromParentIndex__lam0 comp)
__CPROVER_requires(first == 0 && __CPROVER_r_ok(value, sizeof(long)) && cells_symb_wf(comp.cap_this) && last == CG_N(comp.cap_this))
__CPROVER_ensures(0 <= __CPROVER_return_value && __CPROVER_return_value <= last)
#ifdef ELIM_WF
__CPROVER_ensures(ghost_sorted_base != (const void *)LBP_ARR(comp) || __CPROVER_return_value == last || LBP_KEY(comp, __CPROVER_return_value) >= *value)
__CPROVER_ensures(ghost_sorted_base != (const void *)LBP_ARR(comp) || !W_IN(last) || LBP_ARR(comp)[ghost_W].spaceIndex < 0 || (ghost_W < __CPROVER_return_value ? LBP_KEY(comp, ghost_W) < *value : LBP_KEY(comp, ghost_W) >= *value))
#endif
__CPROVER_assigns();

#ifdef ELIM_WF
#define LBP_WINV __CPROVER_loop_invariant(ghost_sorted_base != (const void *)LBP_ARR(comp) || first + count == last || LBP_KEY(comp, first + count) >= *value) \
  __CPROVER_loop_invariant(ghost_sorted_base != (const void *)LBP_ARR(comp) || !W_IN(last) || LBP_ARR(comp)[ghost_W].spaceIndex < 0 || ((ghost_W >= first || LBP_KEY(comp, ghost_W) < *value) && (ghost_W < first + count || LBP_KEY(comp, ghost_W) >= *value)))
#else
#define LBP_WINV
#endif
#define LC_TbfUtils__lower_bound_indexes__long_TbfCellsContainer__getElementFromParentIndex__lam0_0 \
  __CPROVER_assigns(first, count) \
  __CPROVER_loop_invariant(0 <= first && first <= last && 0 <= count && count <= last - first) \
  LBP_WINV \
  __CPROVER_decreases(count)

/* ---- ... with the leaves comparator */
#define LBL_ARR(comp) ((comp).cap_leavesViewer->ptrToData)
#define LBL_KEY(comp, k) (LBL_ARR(comp)[k].spaceIndex)
long LB_LEAVES(long first, const long last, const long *value, struct TbfParticlesContainer__getElementFromSpacialIndex__lam0 comp)
__CPROVER_requires(first == 0 && __CPROVER_r_ok(value, sizeof(long)) && 0 <= last && last <= NMAX)
__CPROVER_requires(__CPROVER_r_ok(comp.cap_leavesViewer, sizeof(LeafVecViewerConst)) && comp.cap_leavesViewer->nbItems == last && __CPROVER_r_ok(LBL_ARR(comp), last * sizeof(LeafHeader)))
__CPROVER_ensures(0 <= __CPROVER_return_value && __CPROVER_return_value <= last)
__CPROVER_ensures(__CPROVER_return_value == last || LBL_KEY(comp, __CPROVER_return_value) >= *value)
__CPROVER_ensures(__CPROVER_return_value == 0 || LBL_KEY(comp, __CPROVER_return_value - 1) < *value)
#ifdef ELIM_WF
__CPROVER_ensures(ghost_sorted_base != (const void *)LBL_ARR(comp) || !W_IN(last) || (ghost_W < __CPROVER_return_value ? LBL_KEY(comp, ghost_W) < *value : LBL_KEY(comp, ghost_W) >= *value))
#endif
__CPROVER_assigns();

#ifdef ELIM_WF
#define LBL_WINV __CPROVER_loop_invariant(ghost_sorted_base != (const void *)LBL_ARR(comp) || !W_IN(last) || ((ghost_W >= first || LBL_KEY(comp, ghost_W) < *value) && (ghost_W < first + count || LBL_KEY(comp, ghost_W) >= *value)))
#else
#define LBL_WINV
#endif
#define LC_TbfUtils__lower_bound_indexes__long_TbfParticlesContainer__getElementFromSpacialIndex__lam0_0 \
  __CPROVER_assigns(first, count) \
  __CPROVER_loop_invariant(0 <= first && first <= last && 0 <= count && count <= last - first) \
  __CPROVER_loop_invariant(first + count == last || LBL_KEY(comp, first + count) >= *value) \
  __CPROVER_loop_invariant(first == 0 || LBL_KEY(comp, first - 1) < *value) \
  LBL_WINV \
  __CPROVER_decreases(count)
#endif

/* ===================================================================================== */
#ifdef SPEC_PART_HARNESS
#define GETITEM_C TbfMemoryVector_CellHeader_64__ViewerConst__getItem
#define GETITEM_L TbfMemoryVector_LeafHeader_64__ViewerConst__getItem

/*@ harness h_getitem_cells enforce=TbfMemoryVector_CellHeader_64__ViewerConst__getItem props=C16,C15,C14 */
void h_getitem_cells(void)
{
  CellVecViewerConst v; long n, i;
  __CPROVER_assume(0 <= n && n <= NMAX);
  CellHeader *a = malloc(n * sizeof(CellHeader)); __CPROVER_assume(a);
  v.ptrToData = a; v.nbItems = n;
  GETITEM_C(&v, i);
  CANARY();
}
/*@ harness h_getitem_leaves enforce=TbfMemoryVector_LeafHeader_64__ViewerConst__getItem props=C16,C15,C14 */
void h_getitem_leaves(void)
{
  LeafVecViewerConst v; long n, i;
  __CPROVER_assume(0 <= n && n <= NMAX);
  LeafHeader *a = malloc(n * sizeof(LeafHeader)); __CPROVER_assume(a);
  v.ptrToData = a; v.nbItems = n;
  GETITEM_L(&v, i);
  CANARY();
}

/* accessors of the cell group: bodies go through TbfMemoryBlock::getViewerForBlock(Const)<i> and the viewers */
/*@ harness h_cells_nb enforce=TbfCellsContainer__getNbCells props=C16,C15,C14 */
void h_cells_nb(void) { CellGroup g; long n; mk_cells(&g, n); TbfCellsContainer__getNbCells(&g);  CANARY(); }
/*@ harness h_cells_start enforce=TbfCellsContainer__getStartingSpacialIndex props=C16,C15,C14 */
void h_cells_start(void) { CellGroup g; long n; mk_cells(&g, n); TbfCellsContainer__getStartingSpacialIndex(&g);  CANARY(); }
/*@ harness h_cells_end enforce=TbfCellsContainer__getEndingSpacialIndex props=C16,C15,C14 */
void h_cells_end(void) { CellGroup g; long n; mk_cells(&g, n); TbfCellsContainer__getEndingSpacialIndex(&g);  CANARY(); }
/*@ harness h_cells_idx enforce=TbfCellsContainer__getCellSpacialIndex props=C16,C15,C14 */
void h_cells_idx(void) { CellGroup g; long n, i; mk_cells(&g, n); TbfCellsContainer__getCellSpacialIndex(&g, i);  CANARY(); }
/*@ harness h_cells_symb enforce=TbfCellsContainer__getCellSymbData props=C16,C15,C14 */
void h_cells_symb(void) { CellGroup g; long n, i; mk_cells(&g, n); TbfCellsContainer__getCellSymbData(&g, i);  CANARY(); }
/*@ harness h_cells_box enforce=TbfCellsContainer__getCellBoxCoord props=C15,C14 */
void h_cells_box(void) { CellGroup g; long n, i; mk_cells(&g, n); TbfCellsContainer__getCellBoxCoord(&g, i);  CANARY(); }
/*@ harness h_cells_mult enforce=TbfCellsContainer__getCellMultipole props=C15,C14 */
void h_cells_mult(void) { CellGroup g; long n, i; mk_cells(&g, n); TbfCellsContainer__getCellMultipole(&g, i);  CANARY(); }
/*@ harness h_cells_multc enforce=TbfCellsContainer__getCellMultipole__c props=C15,C14 */
void h_cells_multc(void) { CellGroup g; long n, i; mk_cells(&g, n); TbfCellsContainer__getCellMultipole__c(&g, i);  CANARY(); }
/*@ harness h_cells_loc enforce=TbfCellsContainer__getCellLocal props=C15,C14 */
void h_cells_loc(void) { CellGroup g; long n, i; mk_cells(&g, n); TbfCellsContainer__getCellLocal(&g, i);  CANARY(); }
/*@ harness h_cells_locc enforce=TbfCellsContainer__getCellLocal__c props=C15,C14 */
void h_cells_locc(void) { CellGroup g; long n, i; mk_cells(&g, n); TbfCellsContainer__getCellLocal__c(&g, i);  CANARY(); }


/* accessors of the particle group */
/*@ harness h_parts_nbleaves enforce=TbfParticlesContainer__getNbLeaves props=C16,C15,C14 */
void h_parts_nbleaves(void) { PartGroup g; long n, np; mk_parts(&g, n, np); TbfParticlesContainer__getNbLeaves(&g);  CANARY(); }
/*@ harness h_parts_nbparts enforce=TbfParticlesContainer__getNbParticles props=C15,C14 */
void h_parts_nbparts(void) { PartGroup g; long n, np; mk_parts(&g, n, np); TbfParticlesContainer__getNbParticles(&g);  CANARY(); }
/*@ harness h_parts_start enforce=TbfParticlesContainer__getStartingSpacialIndex props=C15,C14 */
void h_parts_start(void) { PartGroup g; long n, np; mk_parts(&g, n, np); TbfParticlesContainer__getStartingSpacialIndex(&g);  CANARY(); }
/*@ harness h_parts_end enforce=TbfParticlesContainer__getEndingSpacialIndex props=C15,C14 */
void h_parts_end(void) { PartGroup g; long n, np; mk_parts(&g, n, np); TbfParticlesContainer__getEndingSpacialIndex(&g);  CANARY(); }
/*@ harness h_parts_leafidx enforce=TbfParticlesContainer__getLeafSpacialIndex props=C16,C15,C14 */
void h_parts_leafidx(void) { PartGroup g; long n, np, i; mk_parts(&g, n, np); TbfParticlesContainer__getLeafSpacialIndex(&g, i);  CANARY(); }
/*@ harness h_parts_leafsymb enforce=TbfParticlesContainer__getLeafSymbData props=C15,C14 */
void h_parts_leafsymb(void) { PartGroup g; long n, np, i; mk_parts(&g, n, np); TbfParticlesContainer__getLeafSymbData(&g, i);  CANARY(); }
/*@ harness h_parts_leafcnt enforce=TbfParticlesContainer__getNbParticlesInLeaf props=C15,C14 */
void h_parts_leafcnt(void) { PartGroup g; long n, np, i; mk_parts(&g, n, np); TbfParticlesContainer__getNbParticlesInLeaf(&g, i);  CANARY(); }
/*@ harness h_parts_pidxc enforce=TbfParticlesContainer__getParticleIndexes__c props=C15,C14 */
void h_parts_pidxc(void) { PartGroup g; long n, np, i; mk_parts(&g, n, np); TbfParticlesContainer__getParticleIndexes__c(&g, i);  CANARY(); }
/*@ harness h_parts_pidx enforce=TbfParticlesContainer__getParticleIndexes props=C15,C14 */
void h_parts_pidx(void) { PartGroup g; long n, np, i; mk_parts(&g, n, np); TbfParticlesContainer__getParticleIndexes(&g, i);  CANARY(); }
/*@ harness h_parts_datac enforce=TbfParticlesContainer__getParticleData__c unwind=6 props=C15,C14 */
void h_parts_datac(void) { PartGroup g; long n, np, i; mk_parts(&g, n, np); TbfParticlesContainer__getParticleData__c(&g, i);  CANARY(); }
/*@ harness h_parts_rhs enforce=TbfParticlesContainer__getParticleRhs unwind=6 props=C15,C14 */
void h_parts_rhs(void) { PartGroup g; long n, np, i; mk_parts(&g, n, np); TbfParticlesContainer__getParticleRhs(&g, i);  CANARY(); }

/* binary search: loop contract; the comparator body is kept, the element accessor is used through its contract */
/*@ harness h_lb_cells enforce=TbfUtils__lower_bound_indexes__long_TbfCellsContainer__getElementFromSpacialIndex__lam0 replace=TbfMemoryVector_CellHeader_64__ViewerConst__getItem loopcontracts=1 defs=ELIM_WF props=C16,C15 */
void h_lb_cells(void)
{
  CellGroup g; long n, q;
  mk_cells(&g, n);
  ghost_sorted_base = CG_CELLS(&g);
  struct TbfCellsContainer__getElementFromSpacialIndex__lam0 comp = { .cap_this = &g };
  LB_CELLS(0, n, &q, comp);
  CANARY();
}
/*@ harness h_lb_parent enforce=TbfUtils__lower_bound_indexes__long_TbfCellsContainer__getElementFromParentIndex__lam0 replace=TbfMemoryVector_CellHeader_64__ViewerConst__getItem,TbfMortonSpaceIndex__getParentIndex loopcontracts=1 defs=ELIM_WF props=C16,C15 */
void h_lb_parent(void)
{
  CellGroup g; long n, q; struct TbfMortonSpaceIndex m;
  mk_cells(&g, n);
  ghost_sorted_base = CG_CELLS(&g);
  struct TbfCellsContainer__getElementFromParentIndex__lam0 comp = { .cap_this = &g, .cap_spaceSystem = &m };
  LB_PARENT(0, n, &q, comp);
  CANARY();
}
/*@ harness h_lb_leaves enforce=TbfUtils__lower_bound_indexes__long_TbfParticlesContainer__getElementFromSpacialIndex__lam0 replace=TbfMemoryVector_LeafHeader_64__ViewerConst__getItem loopcontracts=1 defs=ELIM_WF props=C16,C15 */
void h_lb_leaves(void)
{
  LeafVecViewerConst v; long n, q;
  __CPROVER_assume(0 <= n && n <= NMAX);
  LeafHeader *a = malloc(n * sizeof(LeafHeader)); __CPROVER_assume(a);
  v.ptrToData = a; v.nbItems = n;
  ghost_sorted_base = a;
  struct TbfParticlesContainer__getElementFromSpacialIndex__lam0 comp = { .cap_leavesViewer = &v };
  LB_LEAVES(0, n, &q, comp);
  CANARY();
}

/* lookups: found iff present */
/*@ harness h_find_cell enforce=TbfCellsContainer__getElementFromSpacialIndex replace=TbfUtils__lower_bound_indexes__long_TbfCellsContainer__getElementFromSpacialIndex__lam0,TbfMemoryVector_CellHeader_64__ViewerConst__getItem defs=ELIM_WF props=C16,C15 */
void h_find_cell(void)
{
  CellGroup g; long n, q;
  mk_cells(&g, n);
  ghost_sorted_base = CG_CELLS(&g);
  TbfCellsContainer__getElementFromSpacialIndex(&g, q);
  CANARY();
}
/*@ harness h_find_parent enforce=TbfCellsContainer__getElementFromParentIndex replace=TbfUtils__lower_bound_indexes__long_TbfCellsContainer__getElementFromParentIndex__lam0,TbfMemoryVector_CellHeader_64__ViewerConst__getItem,TbfMortonSpaceIndex__getParentIndex defs=ELIM_WF props=C16,C15 */
void h_find_parent(void)
{
  CellGroup g; long n, q; struct TbfMortonSpaceIndex m;
  mk_cells(&g, n);
  ghost_sorted_base = CG_CELLS(&g);
  TbfCellsContainer__getElementFromParentIndex(&g, &m, q);
  CANARY();
}
/*@ harness h_find_leaf enforce=TbfParticlesContainer__getElementFromSpacialIndex replace=TbfUtils__lower_bound_indexes__long_TbfParticlesContainer__getElementFromSpacialIndex__lam0,TbfMemoryVector_LeafHeader_64__ViewerConst__getItem defs=ELIM_WF props=C16,C15 */
void h_find_leaf(void)
{
  PartGroup g; long n, q;
  mk_parts_symb(&g, n);
  ghost_sorted_base = PG_LEAVES(&g);
  TbfParticlesContainer__getElementFromSpacialIndex(&g, q);
  CANARY();
}
#endif
