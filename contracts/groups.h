/* groups.h - abstract view, well-formedness and accessor contracts of the cell / particle group
 * containers (src/core/tbfcellscontainer.hpp, src/core/tbfparticlescontainer.hpp).  Shared by the unit
 * that enforces these contracts (containers) and by the units that use them at call sites.
 *
 * Abstract view = what the raw buffers contain, read directly through the block pointers:
 *   CG_N(g) cells, CG_IDX(g,i) their space indexes, CG_START/END(g) the recorded range,
 *   PG_* likewise for particle groups.
 * forall-shaped hypotheses (strict sortedness of the index arrays) cannot be written as CBMC
 * preconditions (no quantifiers, DESIGN 0).  They are *produced* for an arbitrary symbolic pair by the
 * construction contracts (forall-introduction) and *consumed* as instances for the ghost witness
 * ghost_W: when a unit is compiled with -DELIM_WF the element accessor's contract additionally
 * ensures the instance  sorted(i, ghost_W)  for the array ghost_sorted_base.  That forall-elimination step
 * is the only unchecked link and is listed under "assumptions" in the evidence. */

#ifdef SPEC_PART_CONTRACTS
#ifndef GROUPS_H_CONTRACTS
#define GROUPS_H_CONTRACTS

#ifndef NMAXLOG
#define NMAXLOG 20
#endif
#ifndef NBDATA
#define NBDATA 4
#endif
#ifndef NBRHS
#define NBRHS 2
#endif
#define NMAX (1L << NMAXLOG)

typedef struct TbfCellsContainer CellGroup;
typedef struct TbfParticlesContainer PartGroup;
typedef struct TbfCellsContainer__CellHeader CellHeader;
typedef struct TbfCellsContainer__ContainerHeader CellsHeader;
typedef struct TbfParticlesContainer__LeafHeader LeafHeader;
typedef struct TbfParticlesContainer__ContainerHeader PartsHeader;

/* ghost state */
long ghost_W;                     /* witness position */
const void *ghost_sorted_base;    /* the index array whose sortedness may be instantiated */

#define CG_HDR(g) ((const CellsHeader *)(g)->objectData.blockRawPtrs[0])
#define CG_CELLS(g) ((const CellHeader *)(g)->objectData.blockRawPtrs[1])
#define CG_N(g) (CG_HDR(g)->nbCells)
#define CG_IDX(g, i) (CG_CELLS(g)[i].spaceIndex)
#define CG_START(g) (CG_HDR(g)->startingSpaceIndex)
#define CG_END(g) (CG_HDR(g)->endingSpaceIndex)
#define CG_MULT(g) ((struct VerifMultipole *)(g)->objectMultipole.blockRawPtrs[0])
#define CG_LOC(g) ((struct VerifLocal *)(g)->objectLocal.blockRawPtrs[0])

#define PG_HDR(g) ((const PartsHeader *)(g)->objectData.blockRawPtrs[0])
#define PG_LEAVES(g) ((const LeafHeader *)(g)->objectData.blockRawPtrs[1])
#define PG_N(g) (PG_HDR(g)->nbLeaves)
#define PG_NP(g) (PG_HDR(g)->nbParticles)
#define PG_IDX(g, i) (PG_LEAVES(g)[i].spaceIndex)
#define PG_START(g) (PG_HDR(g)->startingSpaceIndex)
#define PG_END(g) (PG_HDR(g)->endingSpaceIndex)
#define PG_PIDX(g) ((long *)(g)->objectData.blockRawPtrs[2])
#define PG_DATA(g) ((double *)(g)->objectData.blockRawPtrs[3])
#define PG_RHS(g) ((long *)(g)->objectRhs.blockRawPtrs[0])

/* instance of "strictly increasing" for positions i and w of a CellHeader array */
#define SORTED_INST_CELLS(arr, i, w) ((arr)[i].spaceIndex >= 0 && ((i) < (w) ? (arr)[i].spaceIndex < (arr)[w].spaceIndex : 1) && ((w) < (i) ? (arr)[w].spaceIndex < (arr)[i].spaceIndex : 1))

/* structural well-formedness of the symbolic part of a cell group (pointer validity + counts) */
static inline _Bool cells_symb_wf_full(const CellGroup *g)
{
  return __CPROVER_r_ok(g, sizeof(*g)) && g->objectData.nbItemsInBlocks != 0 &&
         __CPROVER_r_ok(g->objectData.nbItemsInBlocks, 2 * sizeof(long)) &&
         __CPROVER_r_ok(g->objectData.blockRawPtrs[0], sizeof(CellsHeader)) &&
         g->objectData.nbItemsInBlocks[0] == 1 && 0 <= CG_N(g) && CG_N(g) <= NMAX &&
         g->objectData.nbItemsInBlocks[1] == CG_N(g) &&
         __CPROVER_r_ok(g->objectData.blockRawPtrs[1], CG_N(g) * sizeof(CellHeader));
}
static inline _Bool cells_data_wf_full(const CellGroup *g)
{
  return g->objectMultipole.nbItemsInBlocks != 0 && __CPROVER_r_ok(g->objectMultipole.nbItemsInBlocks, sizeof(long)) &&
         g->objectMultipole.nbItemsInBlocks[0] == CG_N(g) &&
         __CPROVER_w_ok(g->objectMultipole.blockRawPtrs[0], CG_N(g) * sizeof(struct VerifMultipole)) &&
         g->objectLocal.nbItemsInBlocks != 0 && __CPROVER_r_ok(g->objectLocal.nbItemsInBlocks, sizeof(long)) &&
         g->objectLocal.nbItemsInBlocks[0] == CG_N(g) &&
         __CPROVER_w_ok(g->objectLocal.blockRawPtrs[0], CG_N(g) * sizeof(struct VerifLocal));
}
static inline _Bool parts_symb_wf_full(const PartGroup *g)
{
  return __CPROVER_r_ok(g, sizeof(*g)) && g->objectData.nbItemsInBlocks != 0 &&
         __CPROVER_r_ok(g->objectData.nbItemsInBlocks, 4 * sizeof(long)) &&
         __CPROVER_r_ok(g->objectData.blockRawPtrs[0], sizeof(PartsHeader)) &&
         g->objectData.nbItemsInBlocks[0] == 1 && 0 <= PG_N(g) && PG_N(g) <= NMAX &&
         g->objectData.nbItemsInBlocks[1] == PG_N(g) &&
         __CPROVER_r_ok(g->objectData.blockRawPtrs[1], PG_N(g) * sizeof(LeafHeader));
}

/* Two tiers.  The unit that ENFORCES the accessor contracts (containers) uses the full structural predicates.
 * Client units that only USE the contracts at call sites compile with -DLIGHT_WF: there a group is well-formed
 * iff it is one of the groups the harness built with mk_cells/mk_parts and registered (greg[]); registration
 * implies the full predicate by construction, and it is stable because no assigns clause of the code under
 * proof contains a symbolic block (checked frames). */
const void *greg[6];
#define REGISTERED(g) ((const void *)(g) == greg[0] || (const void *)(g) == greg[1] || (const void *)(g) == greg[2] || (const void *)(g) == greg[3] || (const void *)(g) == greg[4] || (const void *)(g) == greg[5])
#ifdef LIGHT_WF
#define cells_symb_wf(g) (REGISTERED(g) && 0 <= CG_N(g) && CG_N(g) <= NMAX)
#define cells_data_wf(g) REGISTERED(g)
#define parts_symb_wf(g) (REGISTERED(g) && 0 <= PG_N(g) && PG_N(g) <= NMAX)
#define parts_wf(g) (REGISTERED(g) && 0 <= PG_N(g) && PG_N(g) <= NMAX && 0 <= PG_NP(g) && PG_NP(g) <= NMAX)
#else
#define cells_symb_wf(g) cells_symb_wf_full(g)
#define cells_data_wf(g) cells_data_wf_full(g)
#define parts_symb_wf(g) parts_symb_wf_full(g)
#define parts_wf(g) parts_wf_full(g)
#endif

/* harness helpers: build a structurally well-formed group with n cells and arbitrary content */
static inline void mk_cells(CellGroup *g, long n)
{
  __CPROVER_assume(0 <= n && n <= NMAX);
  CellsHeader *h = malloc(sizeof(CellsHeader));
  CellHeader *c = malloc(n * sizeof(CellHeader));
  long *nb = malloc(2 * sizeof(long));
  __CPROVER_assume(h && c && nb);
  h->nbCells = n;
  nb[0] = 1;
  nb[1] = n;
  g->objectData.nbItemsInBlocks = nb;
  g->objectData.blockRawPtrs[0] = (unsigned char *)h;
  g->objectData.blockRawPtrs[1] = (unsigned char *)c;
  struct VerifMultipole *m = malloc(n * sizeof(struct VerifMultipole));
  struct VerifLocal *l = malloc(n * sizeof(struct VerifLocal));
  long *nbm = malloc(sizeof(long));
  long *nbl = malloc(sizeof(long));
  __CPROVER_assume(m && l && nbm && nbl);
  *nbm = n;
  *nbl = n;
  g->objectMultipole.nbItemsInBlocks = nbm;
  g->objectMultipole.blockRawPtrs[0] = (unsigned char *)m;
  g->objectLocal.nbItemsInBlocks = nbl;
  g->objectLocal.blockRawPtrs[0] = (unsigned char *)l;
  if(greg[0] == 0) greg[0] = g; else if(greg[1] == 0) greg[1] = g; else if(greg[2] == 0) greg[2] = g; else if(greg[3] == 0) greg[3] = g; else if(greg[4] == 0) greg[4] = g; else greg[5] = g;
}
static inline void mk_parts_symb(PartGroup *g, long n)
{
  __CPROVER_assume(0 <= n && n <= NMAX);
  PartsHeader *h = malloc(sizeof(PartsHeader));
  LeafHeader *c = malloc(n * sizeof(LeafHeader));
  long *nb = malloc(4 * sizeof(long));
  __CPROVER_assume(h && c && nb);
  h->nbLeaves = n;
  nb[0] = 1;
  nb[1] = n;
  g->objectData.nbItemsInBlocks = nb;
  g->objectData.blockRawPtrs[0] = (unsigned char *)h;
  g->objectData.blockRawPtrs[1] = (unsigned char *)c;
}

/* ---- accessor contracts: cells ---- */
#ifdef GROUPS_INTERNALS
typedef struct TbfMemoryVector_CellHeader_64__ViewerConst CellVecViewerConst;
typedef struct TbfMemoryVector_LeafHeader_64__ViewerConst LeafVecViewerConst;

const CellHeader *TbfMemoryVector_CellHeader_64__ViewerConst__getItem(CellVecViewerConst *self, const long inIdx)
__CPROVER_requires(__CPROVER_r_ok(self, sizeof(*self)) && 0 <= inIdx && inIdx < self->nbItems && self->nbItems <= NMAX)
__CPROVER_requires(__CPROVER_r_ok(self->ptrToData, self->nbItems * sizeof(CellHeader)))
__CPROVER_ensures(__CPROVER_return_value == &self->ptrToData[inIdx])
#ifdef ELIM_WF
__CPROVER_ensures((const void *)self->ptrToData != ghost_sorted_base || (self->ptrToData[inIdx].spaceIndex >= 0 && (!(0 <= ghost_W && ghost_W < self->nbItems) || SORTED_INST_CELLS(self->ptrToData, inIdx, ghost_W))))
#endif
__CPROVER_assigns();

const LeafHeader *TbfMemoryVector_LeafHeader_64__ViewerConst__getItem(LeafVecViewerConst *self, const long inIdx)
__CPROVER_requires(__CPROVER_r_ok(self, sizeof(*self)) && 0 <= inIdx && inIdx < self->nbItems && self->nbItems <= NMAX)
__CPROVER_requires(__CPROVER_r_ok(self->ptrToData, self->nbItems * sizeof(LeafHeader)))
__CPROVER_ensures(__CPROVER_return_value == &self->ptrToData[inIdx])
#ifdef ELIM_WF
__CPROVER_ensures((const void *)self->ptrToData != ghost_sorted_base || (self->ptrToData[inIdx].spaceIndex >= 0 && (!(0 <= ghost_W && ghost_W < self->nbItems) || SORTED_INST_CELLS(self->ptrToData, inIdx, ghost_W))))
#endif
__CPROVER_assigns();

#endif

long TbfCellsContainer__getNbCells(const CellGroup *self)
__CPROVER_requires(cells_symb_wf(self))
__CPROVER_ensures(__CPROVER_return_value == CG_N(self))
__CPROVER_assigns();

long TbfCellsContainer__getStartingSpacialIndex(const CellGroup *self)
__CPROVER_requires(cells_symb_wf(self))
__CPROVER_ensures(__CPROVER_return_value == CG_START(self))
__CPROVER_assigns();

long TbfCellsContainer__getEndingSpacialIndex(const CellGroup *self)
__CPROVER_requires(cells_symb_wf(self))
__CPROVER_ensures(__CPROVER_return_value == CG_END(self))
__CPROVER_assigns();

long TbfCellsContainer__getCellSpacialIndex(const CellGroup *self, const long inIdxCell)
__CPROVER_requires(cells_symb_wf(self) && 0 <= inIdxCell && inIdxCell < CG_N(self))
__CPROVER_ensures(__CPROVER_return_value == CG_IDX(self, inIdxCell))
__CPROVER_assigns();

const CellHeader *TbfCellsContainer__getCellSymbData(const CellGroup *self, const long inIdxCell)
__CPROVER_requires(cells_symb_wf(self) && 0 <= inIdxCell && inIdxCell < CG_N(self))
__CPROVER_ensures(__CPROVER_return_value == &CG_CELLS(self)[inIdxCell])
__CPROVER_assigns();

#define GROUPS_CAT_(a, b) a##b
#define GROUPS_CAT(a, b) GROUPS_CAT_(a, b)
const struct GROUPS_CAT(std_array_long_, DIM) *TbfCellsContainer__getCellBoxCoord(const CellGroup *self, const long inIdxCell)
__CPROVER_requires(cells_symb_wf(self) && 0 <= inIdxCell && inIdxCell < CG_N(self))
__CPROVER_ensures(__CPROVER_return_value == &CG_CELLS(self)[inIdxCell].boxCoord)
__CPROVER_assigns();

struct VerifMultipole *TbfCellsContainer__getCellMultipole(CellGroup *self, const long inIdxCell)
__CPROVER_requires(cells_symb_wf(self) && cells_data_wf(self) && 0 <= inIdxCell && inIdxCell < CG_N(self))
__CPROVER_ensures(__CPROVER_return_value == &CG_MULT(self)[inIdxCell])
__CPROVER_assigns();

const struct VerifMultipole *TbfCellsContainer__getCellMultipole__c(const CellGroup *self, const long inIdxCell)
__CPROVER_requires(cells_symb_wf(self) && cells_data_wf(self) && 0 <= inIdxCell && inIdxCell < CG_N(self))
__CPROVER_ensures(__CPROVER_return_value == &CG_MULT(self)[inIdxCell])
__CPROVER_assigns();

struct VerifLocal *TbfCellsContainer__getCellLocal(CellGroup *self, const long inIdxCell)
__CPROVER_requires(cells_symb_wf(self) && cells_data_wf(self) && 0 <= inIdxCell && inIdxCell < CG_N(self))
__CPROVER_ensures(__CPROVER_return_value == &CG_LOC(self)[inIdxCell])
__CPROVER_assigns();

const struct VerifLocal *TbfCellsContainer__getCellLocal__c(const CellGroup *self, const long inIdxCell)
__CPROVER_requires(cells_symb_wf(self) && cells_data_wf(self) && 0 <= inIdxCell && inIdxCell < CG_N(self))
__CPROVER_ensures(__CPROVER_return_value == &CG_LOC(self)[inIdxCell])
__CPROVER_assigns();

/* ---- accessor contracts: particle groups ---- */
#define SPEC_LD64(x) ((x) + ((64 - (x) % 64) % 64))
#define PG_NB3(g) ((g)->objectData.nbItemsInBlocks[3])
#define PG_LD(g) SPEC_LD64(8 * PG_NB3(g))
#define PG_RHS_NB(g) ((g)->objectRhs.nbItemsInBlocks[0])
#define PG_RHS_LD(g) SPEC_LD64(8 * PG_RHS_NB(g))
#define PG_OFF(g, i) (PG_LEAVES(g)[i].offSet)
#define PG_CNT(g, i) (PG_LEAVES(g)[i].nbParticles)
#define PG_DATA_PTR(g, leaf, v) ((double *)((unsigned char *)PG_DATA(g) + (v) * PG_LD(g)) + PG_OFF(g, leaf))
#define PG_RHS_PTR(g, leaf, v) ((long *)((unsigned char *)PG_RHS(g) + (v) * PG_RHS_LD(g)) + PG_OFF(g, leaf))
/* instance of "every leaf's particle range lies inside the group's particle arrays" */
#define LEAF_INST(g, i) (0 <= PG_OFF(g, i) && 0 <= PG_CNT(g, i) && PG_CNT(g, i) <= PG_NP(g) && PG_OFF(g, i) <= PG_NP(g) - PG_CNT(g, i) && PG_IDX(g, i) >= 0)
/* leaf cell group mirrors the particle group cell by cell (C07; consumed as instances) */
const void *ghost_mirror_cells;
#ifdef ELIM_WF
#define ENS_MIRROR(pg, i) __CPROVER_ensures(ghost_mirror_cells == 0 || ((const CellHeader *)ghost_mirror_cells)[i].spaceIndex == PG_IDX(pg, i))
#else
#define ENS_MIRROR(pg, i)
#endif
#ifdef ELIM_WF
#define ENS_LEAF_INST(g, i) __CPROVER_ensures(LEAF_INST(g, i))
#else
#define ENS_LEAF_INST(g, i)
#endif

static inline _Bool parts_wf_full(const PartGroup *g)
{
  return parts_symb_wf_full(g) && 0 <= PG_NP(g) && PG_NP(g) <= NMAX &&
         g->objectData.nbItemsInBlocks[2] == PG_NP(g) && g->objectData.nbItemsInBlocks[3] == PG_NP(g) * NBDATA &&
         __CPROVER_r_ok(g->objectData.blockRawPtrs[2], PG_NP(g) * sizeof(long)) &&
         __CPROVER_r_ok(g->objectData.blockRawPtrs[3], NBDATA * PG_LD(g)) &&
         g->objectRhs.nbItemsInBlocks != 0 && __CPROVER_r_ok(g->objectRhs.nbItemsInBlocks, sizeof(long)) &&
         PG_RHS_NB(g) == PG_NP(g) * NBRHS && __CPROVER_w_ok(g->objectRhs.blockRawPtrs[0], NBRHS * PG_RHS_LD(g));
}
static inline void mk_parts(PartGroup *g, long n, long np)
{
  mk_parts_symb(g, n);
  __CPROVER_assume(0 <= np && np <= NMAX);
  ((PartsHeader *)g->objectData.blockRawPtrs[0])->nbParticles = np;
  g->objectData.nbItemsInBlocks[2] = np;
  g->objectData.nbItemsInBlocks[3] = np * NBDATA;
  long *pi = malloc(np * sizeof(long));
  double *pd = malloc(NBDATA * PG_LD(g));
  long *nbr = malloc(sizeof(long));
  *nbr = np * NBRHS;
  g->objectRhs.nbItemsInBlocks = nbr;
  long *pr = malloc(NBRHS * PG_RHS_LD(g));
  g->objectData.blockRawPtrs[2] = (unsigned char *)pi;
  g->objectData.blockRawPtrs[3] = (unsigned char *)pd;
  g->objectRhs.blockRawPtrs[0] = (unsigned char *)pr;
  if(greg[0] == 0) greg[0] = g; else if(greg[1] == 0) greg[1] = g; else if(greg[2] == 0) greg[2] = g; else if(greg[3] == 0) greg[3] = g; else if(greg[4] == 0) greg[4] = g; else greg[5] = g;
}

long TbfParticlesContainer__getNbLeaves(const PartGroup *self)
__CPROVER_requires(parts_symb_wf(self))
__CPROVER_ensures(__CPROVER_return_value == PG_N(self))
__CPROVER_assigns();

long TbfParticlesContainer__getNbParticles(const PartGroup *self)
__CPROVER_requires(parts_symb_wf(self))
__CPROVER_ensures(__CPROVER_return_value == PG_NP(self))
__CPROVER_assigns();

long TbfParticlesContainer__getStartingSpacialIndex(const PartGroup *self)
__CPROVER_requires(parts_symb_wf(self))
__CPROVER_ensures(__CPROVER_return_value == PG_START(self))
__CPROVER_assigns();

long TbfParticlesContainer__getEndingSpacialIndex(const PartGroup *self)
__CPROVER_requires(parts_symb_wf(self))
__CPROVER_ensures(__CPROVER_return_value == PG_END(self))
__CPROVER_assigns();

long TbfParticlesContainer__getLeafSpacialIndex(const PartGroup *self, const long inIdxLeaf)
__CPROVER_requires(parts_symb_wf(self) && 0 <= inIdxLeaf && inIdxLeaf < PG_N(self))
__CPROVER_ensures(__CPROVER_return_value == PG_IDX(self, inIdxLeaf))
ENS_LEAF_INST(self, inIdxLeaf)
ENS_MIRROR(self, inIdxLeaf)
__CPROVER_assigns();

const LeafHeader *TbfParticlesContainer__getLeafSymbData(const PartGroup *self, const long inIdxLeaf)
__CPROVER_requires(parts_symb_wf(self) && 0 <= inIdxLeaf && inIdxLeaf < PG_N(self))
__CPROVER_ensures(__CPROVER_return_value == &PG_LEAVES(self)[inIdxLeaf])
ENS_LEAF_INST(self, inIdxLeaf)
__CPROVER_assigns();

long TbfParticlesContainer__getNbParticlesInLeaf(const PartGroup *self, const long inIdxLeaf)
__CPROVER_requires(parts_symb_wf(self) && 0 <= inIdxLeaf && inIdxLeaf < PG_N(self))
__CPROVER_ensures(__CPROVER_return_value == PG_CNT(self, inIdxLeaf))
ENS_LEAF_INST(self, inIdxLeaf)
__CPROVER_assigns();

const long *TbfParticlesContainer__getParticleIndexes__c(const PartGroup *self, const long inIdxLeaf)
__CPROVER_requires(parts_wf(self) && 0 <= inIdxLeaf && inIdxLeaf < PG_N(self))
__CPROVER_ensures(__CPROVER_return_value == PG_PIDX(self) + PG_OFF(self, inIdxLeaf))
ENS_LEAF_INST(self, inIdxLeaf)
__CPROVER_assigns();

long *TbfParticlesContainer__getParticleIndexes(PartGroup *self, const long inIdxLeaf)
__CPROVER_requires(parts_wf(self) && 0 <= inIdxLeaf && inIdxLeaf < PG_N(self))
__CPROVER_ensures(__CPROVER_return_value == PG_PIDX(self) + PG_OFF(self, inIdxLeaf))
ENS_LEAF_INST(self, inIdxLeaf)
__CPROVER_assigns();

#define ENS_DATA_PTRS(g, i) __CPROVER_ensures(__CPROVER_return_value.d[0] == PG_DATA_PTR(g, i, 0) && (NBDATA < 2 || __CPROVER_return_value.d[NBDATA > 1 ? 1 : 0] == PG_DATA_PTR(g, i, 1)) && \
   (NBDATA < 3 || __CPROVER_return_value.d[NBDATA > 2 ? 2 : 0] == PG_DATA_PTR(g, i, 2)) && (NBDATA < 4 || __CPROVER_return_value.d[NBDATA > 3 ? 3 : 0] == PG_DATA_PTR(g, i, 3)))
#define ENS_RHS_PTRS(g, i) __CPROVER_ensures(__CPROVER_return_value.d[0] == PG_RHS_PTR(g, i, 0) && (NBRHS < 2 || __CPROVER_return_value.d[NBRHS > 1 ? 1 : 0] == PG_RHS_PTR(g, i, 1)))
#define CAT2_(a, b) a##b
#define CAT2(a, b) CAT2_(a, b)
#define ARR_CDATA CAT2(std_array_cdouble_p_, NBDATA)
#define ARR_DATA CAT2(std_array_double_p_, NBDATA)
#define ARR_CRHS CAT2(std_array_clong_p_, NBRHS)
#define ARR_RHS CAT2(std_array_long_p_, NBRHS)

struct ARR_CDATA TbfParticlesContainer__getParticleData__c(const PartGroup *self, const long inIdxLeaf)
__CPROVER_requires(parts_wf(self) && 0 <= inIdxLeaf && inIdxLeaf < PG_N(self))
ENS_DATA_PTRS(self, inIdxLeaf)
ENS_LEAF_INST(self, inIdxLeaf)
__CPROVER_assigns();

struct ARR_RHS TbfParticlesContainer__getParticleRhs(PartGroup *self, const long inIdxLeaf)
__CPROVER_requires(parts_wf(self) && 0 <= inIdxLeaf && inIdxLeaf < PG_N(self))
ENS_RHS_PTRS(self, inIdxLeaf)
ENS_LEAF_INST(self, inIdxLeaf)
__CPROVER_assigns();

/* ---- lookups (C16).  Soundness needs no sortedness; completeness is stated for the witness ghost_W. */
struct std_optional_long TbfCellsContainer__getElementFromSpacialIndex(const CellGroup *self, const long inIndex)
__CPROVER_requires(cells_symb_wf(self))
__CPROVER_ensures(!__CPROVER_return_value.has || (0 <= __CPROVER_return_value.v && __CPROVER_return_value.v < CG_N(self) && CG_IDX(self, __CPROVER_return_value.v) == inIndex))
#ifdef ELIM_WF
__CPROVER_ensures(ghost_sorted_base != (const void *)CG_CELLS(self) || !(0 <= ghost_W && ghost_W < CG_N(self) && CG_IDX(self, ghost_W) == inIndex) || (__CPROVER_return_value.has && __CPROVER_return_value.v == ghost_W))
#endif
__CPROVER_assigns();

struct std_optional_long TbfParticlesContainer__getElementFromSpacialIndex(const PartGroup *self, const long inIndex)
__CPROVER_requires(parts_symb_wf(self))
__CPROVER_ensures(!__CPROVER_return_value.has || (0 <= __CPROVER_return_value.v && __CPROVER_return_value.v < PG_N(self) && PG_IDX(self, __CPROVER_return_value.v) == inIndex))
#ifdef ELIM_WF
__CPROVER_ensures(ghost_sorted_base != (const void *)PG_LEAVES(self) || !(0 <= ghost_W && ghost_W < PG_N(self) && PG_IDX(self, ghost_W) == inIndex) || (__CPROVER_return_value.has && __CPROVER_return_value.v == ghost_W))
#endif
__CPROVER_assigns();

/* first child of a parent: returned position p has parent(idx[p]) == inParentIndex; for the witness
 * (a cell whose parent is inParentIndex) the returned position is <= W and nothing before it has that parent */
struct std_optional_long TbfCellsContainer__getElementFromParentIndex(const CellGroup *self, const struct TbfMortonSpaceIndex *spaceSystem, const long inParentIndex)
__CPROVER_requires(cells_symb_wf(self))
__CPROVER_ensures(!__CPROVER_return_value.has || (0 <= __CPROVER_return_value.v && __CPROVER_return_value.v < CG_N(self) && (CG_IDX(self, __CPROVER_return_value.v) >> DIM) == inParentIndex))
#ifdef ELIM_WF
__CPROVER_ensures(ghost_sorted_base != (const void *)CG_CELLS(self) || !(0 <= ghost_W && ghost_W < CG_N(self)) || CG_IDX(self, ghost_W) < 0 ||
                  ((CG_IDX(self, ghost_W) >> DIM) == inParentIndex ? (__CPROVER_return_value.has && __CPROVER_return_value.v <= ghost_W)
                                                                   : (!__CPROVER_return_value.has || ghost_W >= __CPROVER_return_value.v || (CG_IDX(self, ghost_W) >> DIM) < inParentIndex)))
#endif
__CPROVER_assigns();

long TbfMortonSpaceIndex__getParentIndex(const struct TbfMortonSpaceIndex *self, long inIndex)
__CPROVER_requires(0 <= inIndex)
__CPROVER_ensures(__CPROVER_return_value == (inIndex >> DIM))
__CPROVER_assigns();

#endif
#endif
