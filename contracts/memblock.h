/* memblock.h - contracts for TbfMemoryBlock and its block kinds (C14, C15).
 * src/containers/tbfmemoryblock.hpp, tbfmemoryscalar.hpp, tbfmemoryvector.hpp, tbfmemorymultirvector.hpp, src/utils/tbfutils.hpp
 * Layouts under contract (the two the library uses): BCells = <Scalar<Hdr>, Vector<Item>>,
 * BParts = <Scalar<Hdr>, Vector<Item>, Vector<long>, MultiR<double,NBROWS>>; BOne / BRhs single-block variants.
 * Parameters: ITEMSIZE (bytes of the vector element), NBROWS, NMAXLOG (item counts up to 2^NMAXLOG). */
#ifdef SPEC_PART_MODEL
#include "prelude.h"
#include "stl_model.h"
#ifndef NMAXLOG
#define NMAXLOG 24
#endif
#define NMAX (1L << NMAXLOG)
#define ALIGN 64L
#endif

#ifdef SPEC_PART_CONTRACTS
/* ---- L0: least multiple of ALIGN that is >= x (written differently from the code under proof) */
static inline long spec_ld(long x) { return x + ((ALIGN - x % ALIGN) % ALIGN); }
unsigned long ghost_byte; /* witness byte offset for zero-fill statements */

/* ---- libc / non-extracted callees: ASSUMED contracts (trusted base) */
#ifndef PLAIN_STUBS
void *__verif_memset(void *s, int c, unsigned long n)
__CPROVER_requires(n == 0 || __CPROVER_w_ok(s, n))
__CPROVER_assigns(__CPROVER_object_upto(s, n))
__CPROVER_ensures(__CPROVER_return_value == s)
__CPROVER_ensures(!(ghost_byte < n) || ((unsigned char *)s)[ghost_byte] == (unsigned char)c);

/* placement-new value-initialisation / pseudo-destructor of POD items over zeroed memory: no observable change */
void BCells__constructAllItems(struct BCells *self) __CPROVER_requires(1) __CPROVER_ensures(1) __CPROVER_assigns();
void BCells__freeAllItems(struct BCells *self) __CPROVER_requires(1) __CPROVER_ensures(1) __CPROVER_assigns();
void BParts__constructAllItems(struct BParts *self) __CPROVER_requires(1) __CPROVER_ensures(1) __CPROVER_assigns();
void BParts__freeAllItems(struct BParts *self) __CPROVER_requires(1) __CPROVER_ensures(1) __CPROVER_assigns();
void BOne__constructAllItems(struct BOne *self) __CPROVER_requires(1) __CPROVER_ensures(1) __CPROVER_assigns();
void BOne__freeAllItems(struct BOne *self) __CPROVER_requires(1) __CPROVER_ensures(1) __CPROVER_assigns();
void BRhs__constructAllItems(struct BRhs *self) __CPROVER_requires(1) __CPROVER_ensures(1) __CPROVER_assigns();
void BRhs__freeAllItems(struct BRhs *self) __CPROVER_requires(1) __CPROVER_ensures(1) __CPROVER_assigns();
#endif

/* ---- GetLeadingDim<T>(n, align) */
#define LD_CONTRACT(T, SZ) \
long TbfUtils__GetLeadingDim__##T(const long inNbItems, const long MemoryAlignementBytes) \
__CPROVER_requires(0 <= inNbItems && inNbItems <= NMAX && MemoryAlignementBytes == ALIGN) \
__CPROVER_ensures(__CPROVER_return_value == spec_ld((SZ) * inNbItems)) \
__CPROVER_ensures(__CPROVER_return_value % ALIGN == 0 && __CPROVER_return_value >= (SZ) * inNbItems && __CPROVER_return_value - (SZ) * inNbItems < ALIGN) \
__CPROVER_assigns();
LD_CONTRACT(VerifItem, ITEMSIZE)
LD_CONTRACT(VerifHdr, 32)
LD_CONTRACT(double, 8)
LD_CONTRACT(long, 8)

/* ---- layout arithmetic */
#define SZ_HDR spec_ld(32)
#define SZ_ITEMS(n) spec_ld(ITEMSIZE * (n))
#define SZ_LONGS(n) spec_ld(8 * (n))
#define SZ_ROWS(n) (NBROWS * spec_ld(8 * (n)))
#define SIZES_OK2(s) ((s)->d[0] == 1 && 0 <= (s)->d[1] && (s)->d[1] <= NMAX)
#define SIZES_OK4(s) ((s)->d[0] == 1 && 0 <= (s)->d[1] && (s)->d[1] <= NMAX && 0 <= (s)->d[2] && (s)->d[2] <= NMAX && 0 <= (s)->d[3] && (s)->d[3] <= NMAX)
#define OFF2_1 SZ_HDR
#define OFF2_END(s) (SZ_HDR + SZ_ITEMS((s)->d[1]))
#define OFF4_1 SZ_HDR
#define OFF4_2(s) (SZ_HDR + SZ_ITEMS((s)->d[1]))
#define OFF4_3(s) (OFF4_2(s) + SZ_LONGS((s)->d[2]))
#define OFF4_END(s) (OFF4_3(s) + SZ_ROWS((s)->d[3]))

struct std_array_std_pair_long_long_3 BCells__GetSizeAndOffsetOfBlocks__std_array_long_2(const struct std_array_long_2 *inSizes)
__CPROVER_requires(__CPROVER_r_ok(inSizes, sizeof(*inSizes)) && SIZES_OK2(inSizes))
__CPROVER_ensures(__CPROVER_return_value.d[0].first == SZ_HDR && __CPROVER_return_value.d[0].second == 0)
__CPROVER_ensures(__CPROVER_return_value.d[1].first == SZ_ITEMS(inSizes->d[1]) && __CPROVER_return_value.d[1].second == OFF2_1)
__CPROVER_ensures(__CPROVER_return_value.d[2].first == 0 && __CPROVER_return_value.d[2].second == OFF2_END(inSizes))
__CPROVER_assigns();

struct std_array_std_pair_long_long_5 BParts__GetSizeAndOffsetOfBlocks__std_array_long_4(const struct std_array_long_4 *inSizes)
__CPROVER_requires(__CPROVER_r_ok(inSizes, sizeof(*inSizes)) && SIZES_OK4(inSizes))
__CPROVER_ensures(__CPROVER_return_value.d[0].first == SZ_HDR && __CPROVER_return_value.d[0].second == 0)
__CPROVER_ensures(__CPROVER_return_value.d[1].first == SZ_ITEMS(inSizes->d[1]) && __CPROVER_return_value.d[1].second == OFF4_1)
__CPROVER_ensures(__CPROVER_return_value.d[2].first == SZ_LONGS(inSizes->d[2]) && __CPROVER_return_value.d[2].second == OFF4_2(inSizes))
__CPROVER_ensures(__CPROVER_return_value.d[3].first == SZ_ROWS(inSizes->d[3]) && __CPROVER_return_value.d[3].second == OFF4_3(inSizes))
__CPROVER_ensures(__CPROVER_return_value.d[4].first == 0 && __CPROVER_return_value.d[4].second == OFF4_END(inSizes))
__CPROVER_assigns();

/* ---- self-description: what a block object must look like w.r.t. its buffer (NB blocks) */
/* the trailer words, addressed through the buffer pointer (CBMC's value sets do not follow an assumed pointer equality) */
#define TR_NB(b, NB) ((long *)((b)->rawMemoryPtr + (b)->allocatedMemorySizeInByte - 8 * (NB)))
#define TR_OFF(b, NB) ((long *)((b)->rawMemoryPtr + (b)->allocatedMemorySizeInByte - 16 * (NB)))
/* REBIND: after a contract was applied at a call site, re-assign a pointer field to the expression the
 * postcondition proved it equal to (checked), so that later dereferences resolve to the right object */
#define REBIND(lv, e) do { __CPROVER_assert((lv) == (e), "rebind: equal by the callee's postcondition"); (lv) = (e); } while(0)
#define REBIND_BLOCK4(b) do { REBIND((b)->nbItemsInBlocks, TR_NB(b, 4)); REBIND((b)->offsetOfBlocksForPtrs, TR_OFF(b, 4)); \
  REBIND((b)->blockRawPtrs[0], (b)->rawMemoryPtr + TR_OFF(b, 4)[0]); REBIND((b)->blockRawPtrs[1], (b)->rawMemoryPtr + TR_OFF(b, 4)[1]); \
  REBIND((b)->blockRawPtrs[2], (b)->rawMemoryPtr + TR_OFF(b, 4)[2]); REBIND((b)->blockRawPtrs[3], (b)->rawMemoryPtr + TR_OFF(b, 4)[3]); } while(0)
#define TRAILER_OK(b, NB) ((b)->nbItemsInBlocks == (long *)((b)->rawMemoryPtr + (b)->allocatedMemorySizeInByte - 8 * (NB)) && \
                           (b)->offsetOfBlocksForPtrs == (long *)((b)->rawMemoryPtr + (b)->allocatedMemorySizeInByte - 16 * (NB)))

void BCells__resetBlocksFromSizes__std_array_long_2(struct BCells *self, struct std_array_long_2 *inNbItemsInBlocks)
__CPROVER_requires(__CPROVER_w_ok(self, sizeof(*self)) && __CPROVER_r_ok(inNbItemsInBlocks, sizeof(*inNbItemsInBlocks)) && SIZES_OK2(inNbItemsInBlocks))
__CPROVER_requires(!self->objectOwnData || (0 <= self->allocatedMemorySizeInByte && self->allocatedMemorySizeInByte <= (1L << 50) && __CPROVER_w_ok(self->rawMemoryPtr, self->allocatedMemorySizeInByte) && __CPROVER_POINTER_OFFSET(self->rawMemoryPtr) == 0 && __CPROVER_DYNAMIC_OBJECT(self->rawMemoryPtr) && __CPROVER_OBJECT_SIZE(self->rawMemoryPtr) == self->allocatedMemorySizeInByte))
__CPROVER_ensures(self->objectOwnData && self->allocatedMemorySizeInByte >= OFF2_END(inNbItemsInBlocks) + 32 && self->allocatedMemorySizeInByte <= (1L << 50) && __CPROVER_is_fresh(self->rawMemoryPtr, self->allocatedMemorySizeInByte))
__CPROVER_ensures(TRAILER_OK(self, 2))
__CPROVER_ensures(TR_NB(self, 2)[0] == 1 && TR_NB(self, 2)[1] == inNbItemsInBlocks->d[1])
__CPROVER_ensures(TR_OFF(self, 2)[0] == 0 && TR_OFF(self, 2)[1] == OFF2_1)
__CPROVER_ensures(self->blockRawPtrs[0] == self->rawMemoryPtr && self->blockRawPtrs[1] == self->rawMemoryPtr + OFF2_1)
__CPROVER_ensures(!(ghost_byte < OFF2_END(inNbItemsInBlocks)) || self->rawMemoryPtr[ghost_byte] == 0)
__CPROVER_assigns(*self; self->objectOwnData: __CPROVER_object_whole(self->rawMemoryPtr))
__CPROVER_frees(self->objectOwnData: self->rawMemoryPtr);

void BParts__resetBlocksFromSizes__std_array_long_4(struct BParts *self, struct std_array_long_4 *inNbItemsInBlocks)
__CPROVER_requires(__CPROVER_w_ok(self, sizeof(*self)) && __CPROVER_r_ok(inNbItemsInBlocks, sizeof(*inNbItemsInBlocks)) && SIZES_OK4(inNbItemsInBlocks))
__CPROVER_requires(!self->objectOwnData || (0 <= self->allocatedMemorySizeInByte && self->allocatedMemorySizeInByte <= (1L << 50) && __CPROVER_w_ok(self->rawMemoryPtr, self->allocatedMemorySizeInByte) && __CPROVER_POINTER_OFFSET(self->rawMemoryPtr) == 0 && __CPROVER_DYNAMIC_OBJECT(self->rawMemoryPtr) && __CPROVER_OBJECT_SIZE(self->rawMemoryPtr) == self->allocatedMemorySizeInByte))
__CPROVER_ensures(self->objectOwnData && self->allocatedMemorySizeInByte >= OFF4_END(inNbItemsInBlocks) + 64 && self->allocatedMemorySizeInByte <= (1L << 50) && __CPROVER_is_fresh(self->rawMemoryPtr, self->allocatedMemorySizeInByte))
__CPROVER_ensures(TRAILER_OK(self, 4))
__CPROVER_ensures(TR_NB(self, 4)[0] == 1 && TR_NB(self, 4)[1] == inNbItemsInBlocks->d[1] && TR_NB(self, 4)[2] == inNbItemsInBlocks->d[2] && TR_NB(self, 4)[3] == inNbItemsInBlocks->d[3])
__CPROVER_ensures(TR_OFF(self, 4)[0] == 0 && TR_OFF(self, 4)[1] == OFF4_1 && TR_OFF(self, 4)[2] == OFF4_2(inNbItemsInBlocks) && TR_OFF(self, 4)[3] == OFF4_3(inNbItemsInBlocks))
__CPROVER_ensures(self->blockRawPtrs[0] == self->rawMemoryPtr && self->blockRawPtrs[1] == self->rawMemoryPtr + OFF4_1 && self->blockRawPtrs[2] == self->rawMemoryPtr + OFF4_2(inNbItemsInBlocks) && self->blockRawPtrs[3] == self->rawMemoryPtr + OFF4_3(inNbItemsInBlocks))
__CPROVER_ensures(!(ghost_byte < OFF4_END(inNbItemsInBlocks)) || self->rawMemoryPtr[ghost_byte] == 0)
__CPROVER_assigns(*self; self->objectOwnData: __CPROVER_object_whole(self->rawMemoryPtr))
__CPROVER_frees(self->objectOwnData: self->rawMemoryPtr);

struct TbfMemoryMultiRVector_double_4_64__Viewer BParts__getViewerForBlock__3(struct BParts *self)
__CPROVER_requires(__CPROVER_r_ok(self, sizeof(*self)) && self->nbItemsInBlocks != 0 && __CPROVER_r_ok(self->nbItemsInBlocks, 4 * sizeof(long)) && 0 <= self->nbItemsInBlocks[3] && self->nbItemsInBlocks[3] <= NMAX)
__CPROVER_ensures(__CPROVER_return_value.ptrToData == (double *)self->blockRawPtrs[3] && __CPROVER_return_value.nbItems == self->nbItemsInBlocks[3] && __CPROVER_return_value.leadingDim == spec_ld(8 * self->nbItemsInBlocks[3]))
__CPROVER_assigns();

struct TbfMemoryVector_long_64__Viewer BParts__getViewerForBlock__2(struct BParts *self)
__CPROVER_requires(__CPROVER_r_ok(self, sizeof(*self)) && self->nbItemsInBlocks != 0 && __CPROVER_r_ok(self->nbItemsInBlocks, 4 * sizeof(long)))
__CPROVER_ensures(__CPROVER_return_value.ptrToData == (long *)self->blockRawPtrs[2] && __CPROVER_return_value.nbItems == self->nbItemsInBlocks[2])
__CPROVER_assigns();

double *TbfMemoryMultiRVector_double_4_64__Viewer__getItem(struct TbfMemoryMultiRVector_double_4_64__Viewer *self, const long inIdx, const long inIdxRow)
__CPROVER_requires(__CPROVER_r_ok(self, sizeof(*self)) && 0 <= inIdxRow && inIdxRow < NBROWS && 0 <= self->leadingDim && self->leadingDim <= (1L << 40) && 0 <= inIdx && inIdx <= NMAX)
__CPROVER_ensures((unsigned char *)__CPROVER_return_value == (unsigned char *)self->ptrToData + inIdxRow * self->leadingDim + 8 * inIdx)
__CPROVER_assigns();

long *TbfMemoryVector_long_64__Viewer__getItem(struct TbfMemoryVector_long_64__Viewer *self, const long inIdx)
__CPROVER_requires(__CPROVER_r_ok(self, sizeof(*self)) && 0 <= inIdx && inIdx <= NMAX)
__CPROVER_ensures((unsigned char *)__CPROVER_return_value == (unsigned char *)self->ptrToData + 8 * inIdx)
__CPROVER_assigns();

/* raw-memory view: initHeader re-derives everything from the trailer at the end of the given size */
void BParts__initHeader(struct BParts *self)
__CPROVER_requires(__CPROVER_w_ok(self, sizeof(*self)) && self->allocatedMemorySizeInByte >= 64 && self->allocatedMemorySizeInByte <= (1L << 50) && __CPROVER_r_ok(self->rawMemoryPtr, self->allocatedMemorySizeInByte))
__CPROVER_ensures(TRAILER_OK(self, 4))
__CPROVER_ensures(self->blockRawPtrs[0] == self->rawMemoryPtr + TR_OFF(self, 4)[0] && self->blockRawPtrs[1] == self->rawMemoryPtr + TR_OFF(self, 4)[1] &&
                  self->blockRawPtrs[2] == self->rawMemoryPtr + TR_OFF(self, 4)[2] && self->blockRawPtrs[3] == self->rawMemoryPtr + TR_OFF(self, 4)[3])
__CPROVER_assigns(self->nbItemsInBlocks, self->offsetOfBlocksForPtrs, __CPROVER_object_whole(self->blockRawPtrs));

void BCells__initHeader(struct BCells *self)
__CPROVER_requires(__CPROVER_w_ok(self, sizeof(*self)) && self->allocatedMemorySizeInByte >= 32 && self->allocatedMemorySizeInByte <= (1L << 50) && __CPROVER_r_ok(self->rawMemoryPtr, self->allocatedMemorySizeInByte))
__CPROVER_ensures(TRAILER_OK(self, 2))
__CPROVER_ensures(self->blockRawPtrs[0] == self->rawMemoryPtr + TR_OFF(self, 2)[0] && self->blockRawPtrs[1] == self->rawMemoryPtr + TR_OFF(self, 2)[1])
__CPROVER_assigns(self->nbItemsInBlocks, self->offsetOfBlocksForPtrs, __CPROVER_object_whole(self->blockRawPtrs));

#endif

/* ===================================================================================== */
#ifdef SPEC_PART_HARNESS
/*@ harness h_ld_item enforce=TbfUtils__GetLeadingDim__VerifItem props=C14,C15 */
void h_ld_item(void) { long n, a; TbfUtils__GetLeadingDim__VerifItem(n, a);  CANARY(); }
/*@ harness h_ld_hdr enforce=TbfUtils__GetLeadingDim__VerifHdr props=C14,C15 */
void h_ld_hdr(void) { long n, a; TbfUtils__GetLeadingDim__VerifHdr(n, a);  CANARY(); }
/*@ harness h_ld_double enforce=TbfUtils__GetLeadingDim__double props=C14,C15 */
void h_ld_double(void) { long n, a; TbfUtils__GetLeadingDim__double(n, a);  CANARY(); }
/*@ harness h_ld_long enforce=TbfUtils__GetLeadingDim__long props=C14,C15 */
void h_ld_long(void) { long n, a; TbfUtils__GetLeadingDim__long(n, a);  CANARY(); }

#define LDS TbfUtils__GetLeadingDim__VerifItem,TbfUtils__GetLeadingDim__VerifHdr,TbfUtils__GetLeadingDim__double,TbfUtils__GetLeadingDim__long
/*@ harness h_layout_cells enforce=BCells__GetSizeAndOffsetOfBlocks__std_array_long_2 replace=TbfUtils__GetLeadingDim__VerifItem,TbfUtils__GetLeadingDim__VerifHdr unwind=4 props=C14,C15 */
void h_layout_cells(void) { struct std_array_long_2 s; BCells__GetSizeAndOffsetOfBlocks__std_array_long_2(&s);  CANARY(); }
/*@ harness h_layout_parts enforce=BParts__GetSizeAndOffsetOfBlocks__std_array_long_4 replace=TbfUtils__GetLeadingDim__VerifItem,TbfUtils__GetLeadingDim__VerifHdr,TbfUtils__GetLeadingDim__double,TbfUtils__GetLeadingDim__long unwind=6 props=C14,C15 */
void h_layout_parts(void) { struct std_array_long_4 s; BParts__GetSizeAndOffsetOfBlocks__std_array_long_4(&s);  CANARY(); }

static inline void mk_block_state_cells(struct BCells *b)
{
  if(b->objectOwnData) {
    long a; __CPROVER_assume(0 <= a && a <= (1L << 40));
    b->allocatedMemorySizeInByte = a;
    b->rawMemoryPtr = malloc(a);
  }
}
/*@ harness h_reset_cells enforce=BCells__resetBlocksFromSizes__std_array_long_2 replace=BCells__GetSizeAndOffsetOfBlocks__std_array_long_2,__verif_memset,BCells__constructAllItems,BCells__freeAllItems unwind=4 props=C14,C15,C06 */
void h_reset_cells(void)
{
  struct BCells b; struct std_array_long_2 s;
  mk_block_state_cells(&b);
  BCells__resetBlocksFromSizes__std_array_long_2(&b, &s);
  CANARY();
}
/*@ harness h_reset_parts enforce=BParts__resetBlocksFromSizes__std_array_long_4 replace=BParts__GetSizeAndOffsetOfBlocks__std_array_long_4,__verif_memset,BParts__constructAllItems,BParts__freeAllItems unwind=6 props=C14,C15,C06 */
void h_reset_parts(void)
{
  struct BParts b; struct std_array_long_4 s;
  if(b.objectOwnData) {
    long a; __CPROVER_assume(0 <= a && a <= (1L << 40));
    b.allocatedMemorySizeInByte = a;
    b.rawMemoryPtr = malloc(a);
  }
  BParts__resetBlocksFromSizes__std_array_long_4(&b, &s);
  CANARY();
}

/*@ harness h_inithdr_parts enforce=BParts__initHeader unwind=6 props=C14,C15 */
void h_inithdr_parts(void)
{
  struct BParts b; long a;
  __CPROVER_assume(64 <= a && a <= (1L << 40));
  b.allocatedMemorySizeInByte = a;
  b.rawMemoryPtr = malloc(a);
  BParts__initHeader(&b);
  CANARY();
}
/*@ harness h_inithdr_cells enforce=BCells__initHeader unwind=4 props=C14,C15 */
void h_inithdr_cells(void)
{
  struct BCells b; long a;
  __CPROVER_assume(32 <= a && a <= (1L << 40));
  b.allocatedMemorySizeInByte = a;
  b.rawMemoryPtr = malloc(a);
  BCells__initHeader(&b);
  CANARY();
}


/* buffer reuse after shrinking, then a raw-memory view of the same bytes: the view must report the NEW counts and
 * offsets (the trailer lives at the end of the ALLOCATED size).  BOUNDED: allocation of 1024 bytes, new item count <= 6;
 * real bodies of resetBlocksFromSizes and initHeader. */
#ifdef PLAIN_STUBS
void *__verif_memset(void *s, int c, unsigned long n) { return __builtin_memset(s, c, n); }
void BCells__constructAllItems(struct BCells *self) {}
void BCells__freeAllItems(struct BCells *self) {}
#endif
/*@ harness bounded_reuse_then_view when=ITEMSIZE<=64 plain=1 unwind=6 defs=PLAIN_STUBS bounded=allocated=1024,items<=6 props=C14,C15 timeout=600 */
void bounded_reuse_then_view(void)
{
  struct BCells b; struct std_array_long_2 s;
  b.objectOwnData = 1; b.allocatedMemorySizeInByte = 1024; b.rawMemoryPtr = malloc(1024);
  s.d[0] = 1; __CPROVER_assume(0 <= s.d[1] && s.d[1] <= 6);
  BCells__resetBlocksFromSizes__std_array_long_2(&b, &s);
  __CPROVER_assert(b.allocatedMemorySizeInByte == 1024 && b.objectOwnData, "C14: a large enough owned buffer is reused");
  struct BCells v;
  v.allocatedMemorySizeInByte = b.allocatedMemorySizeInByte; v.rawMemoryPtr = b.rawMemoryPtr; v.objectOwnData = 0;
  BCells__initHeader(&v);
  __CPROVER_assert(v.nbItemsInBlocks[0] == 1 && v.nbItemsInBlocks[1] == s.d[1], "C14: a raw-memory view of a reused buffer reports the new item counts");
  __CPROVER_assert(v.blockRawPtrs[0] == b.blockRawPtrs[0] && v.blockRawPtrs[1] == b.blockRawPtrs[1], "C14: a raw-memory view of a reused buffer derives the same block pointers");
  CANARY();
}

/* accessors: viewer construction and element address (real bodies), then a pure-integer lemma that the
 * addresses stay inside the block, below the next block and below the trailer. */
/*@ harness h_viewer3 enforce=BParts__getViewerForBlock__3 replace=TbfUtils__GetLeadingDim__double props=C14,C15 */
void h_viewer3(void)
{
  struct BParts b; long nb[4];
  b.nbItemsInBlocks = nb;
  BParts__getViewerForBlock__3(&b);
  CANARY();
}
/*@ harness h_viewer2 enforce=BParts__getViewerForBlock__2 props=C14,C15 */
void h_viewer2(void)
{
  struct BParts b; long nb[4];
  b.nbItemsInBlocks = nb;
  BParts__getViewerForBlock__2(&b);
  CANARY();
}
/*@ harness h_getitem_rows enforce=TbfMemoryMultiRVector_double_4_64__Viewer__getItem props=C14,C15 */
void h_getitem_rows(void)
{
  struct TbfMemoryMultiRVector_double_4_64__Viewer v; long i, r;
  TbfMemoryMultiRVector_double_4_64__Viewer__getItem(&v, i, r);
  CANARY();
}
/*@ harness h_getitem_longs enforce=TbfMemoryVector_long_64__Viewer__getItem props=C14,C15 */
void h_getitem_longs(void)
{
  struct TbfMemoryVector_long_64__Viewer v; long i;
  TbfMemoryVector_long_64__Viewer__getItem(&v, i);
  CANARY();
}
/*@ harness lemma_layout_bounds unwind=8 props=C14 */
void lemma_layout_bounds(void)
{
  /* offsets as established by resetBlocksFromSizes' contract, addresses as established by the viewer contracts */
  struct std_array_long_4 s; __CPROVER_assume(SIZES_OK4(&s));
  const long off1 = OFF4_1, off2 = OFF4_2(&s), off3 = off2 + SZ_LONGS(s.d[2]), rowsz = spec_ld(8 * s.d[3]), end = off3 + NBROWS * rowsz;
  __CPROVER_assert(off1 % ALIGN == 0 && off2 % ALIGN == 0 && off3 % ALIGN == 0 && end % ALIGN == 0, "C14: block offsets are multiples of the alignment");
  __CPROVER_assert(0 < off1 && off1 <= off2 && off2 <= off3 && off3 <= end, "C14: blocks are laid out in order without overlap");
  long i, row, j, k;
  __CPROVER_assume(0 <= i && i < s.d[3] && 0 <= row && row < NBROWS);
  long o3 = off3 + row * rowsz + 8 * i;                /* MultiR Viewer::getItem(i,row) by its contract */
  __CPROVER_assert(off3 <= o3 && o3 + 8 <= end, "C14: multi-row accessor stays inside its block");
  long row2; __CPROVER_assume(0 <= row2 && row2 < NBROWS && row2 != row);
  long o3b = off3 + row2 * rowsz + 8 * i;
  __CPROVER_assert(o3b + 8 <= o3 || o3 + 8 <= o3b, "C14: rows do not overlap");
  __CPROVER_assume(0 <= j && j < s.d[2]);
  long o2 = off2 + 8 * j;                              /* Vector<long> Viewer::getItem(j) */
  __CPROVER_assert(off2 <= o2 && o2 + 8 <= off3, "C14: vector accessor stays inside its block");
  __CPROVER_assume(0 <= k && k < s.d[1]);
  long o1 = off1 + ITEMSIZE * k;
  __CPROVER_assert(off1 <= o1 && o1 + ITEMSIZE <= off2, "C14: item accessor stays inside its block");
  __CPROVER_assert(32 <= off1, "C14: the scalar header fits before the first vector block");
  /* allocated >= end + 64 (contract of reset): every data byte is below the trailer words */
  CANARY();
}
#endif
