/* tree.h - TbfTree bulk export (C17) and tree-level lookups (C16), src/core/tbftree.hpp.
 * BOUNDED STAND-IN for the export loops: particle groups of shape {2,1} and {2,1}+{1} (particles per leaf), every
 * assignment of original indices, all values symbolic, complete unwinding.
 * The statement checked is the property's: entry i of the exported array holds the values of the particle
 * whose original index is i. */
#ifdef SPEC_PART_MODEL
#include "prelude.h"
#define VEC_CAP 4
#include "stl_model.h"
#endif

#ifdef SPEC_PART_CONTRACTS
#define NPMAX 4
#define CAT2_(a, b) a##b
#define CAT2(a, b) CAT2_(a, b)
#define ARR_D CAT2(std_array_double_, NBDATA)
#define ARR_R CAT2(std_array_long_, NBRHS)
typedef struct TbfParticlesContainer PartGroup;
typedef struct TbfParticlesContainer__LeafHeader LeafHeader;
#endif

#ifdef SPEC_PART_HARNESS
_Bool nondet_bool(void); long nondet_long(void); double nondet_double(void);
static PartGroup g_groups[2];
static double g_val[NPMAX][NBDATA];   /* value v of the particle whose ORIGINAL index is p */
static long g_rhs[NPMAX][NBRHS];
static _Bool g_used[NPMAX];

/* build one particle group of a fixed shape (leaf sizes c0, c1; c1 == 0 means a single leaf); original indices are
 * arbitrary distinct numbers below N, all values symbolic */
static void build_group(PartGroup *g, long N, long c0, long c1)
{
  const long nl = c1 ? 2 : 1, np = c0 + c1;
  struct TbfParticlesContainer__ContainerHeader *h = malloc(sizeof(*h));
  LeafHeader *lv = malloc(2 * sizeof(LeafHeader));
  long *pidx = malloc(4 * sizeof(long));
  long *nb = malloc(4 * sizeof(long)), *nbr = malloc(sizeof(long));
  lv[0].nbParticles = c0; lv[0].offSet = 0; lv[0].spaceIndex = nondet_long();
  lv[1].nbParticles = c1; lv[1].offSet = c0; lv[1].spaceIndex = nondet_long();
  const long ld = ((8 * np * NBDATA + 63) / 64) * 64, ldr = ((8 * np * NBRHS + 63) / 64) * 64;
  double *pd = malloc(NBDATA * ld);
  long *pr = malloc(NBRHS * ldr);
  for(long k = 0; k < np; ++k) {
    long p = nondet_long(); __CPROVER_assume(0 <= p && p < N && !g_used[p]);
    g_used[p] = 1; pidx[k] = p;
    for(long v = 0; v < NBDATA; ++v) { double x = nondet_double(); g_val[p][v] = x; ((double *)((unsigned char *)pd + v * ld))[k] = x; }
    for(long v = 0; v < NBRHS; ++v) { long x = nondet_long(); g_rhs[p][v] = x; ((long *)((unsigned char *)pr + v * ldr))[k] = x; }
  }
  h->nbLeaves = nl; h->nbParticles = np;
  nb[0] = 1; nb[1] = nl; nb[2] = np; nb[3] = np * NBDATA; *nbr = np * NBRHS;
  g->objectData.nbItemsInBlocks = nb; g->objectData.blockRawPtrs[0] = (unsigned char *)h; g->objectData.blockRawPtrs[1] = (unsigned char *)lv;
  g->objectData.blockRawPtrs[2] = (unsigned char *)pidx; g->objectData.blockRawPtrs[3] = (unsigned char *)pd;
  g->objectRhs.nbItemsInBlocks = nbr; g->objectRhs.blockRawPtrs[0] = (unsigned char *)pr;
}
static long build_small_tree(struct TbfTree *t)
{
  /* shapes: one group {2,1}, optionally a second group {1}; N = number of particles */
  _Bool two = nondet_bool();
  const long N = two ? 4 : 3;
  for(long p = 0; p < NPMAX; ++p) g_used[p] = 0;
  build_group(&g_groups[0], N, 2, 1);
  if(two) build_group(&g_groups[1], N, 1, 0);
  t->particleGroups.data = g_groups; t->particleGroups.size = two ? 2 : 1; t->particleGroups.cap = 2;
  t->nbParticles = N;
  return N;
}

/* the per-leaf body of the export (the lambda handed to applyToAllLeaves), real extracted body:
 * BOUNDED: <= 3 particles in the leaf, <= 4 particles in the tree, all indices / values symbolic */
/*@ harness bounded_export_leaf_data plain=1 unwind=5 bounded=particles/leaf<=3,N<=4 props=C17,C15 timeout=600 */
void bounded_export_leaf_data(void)
{
  long N, nb; __CPROVER_assume(1 <= N && N <= 4 && 0 <= nb && nb <= 3 && nb <= N);
  struct ARR_D out[4]; struct ARR_D *outp = out;
  struct TbfTree__getAllParticlesData__lam0 clos = { .cap_data = &outp };
  LeafHeader lh; lh.nbParticles = nb;
  long pidx[3]; double col[NBDATA][3]; long rcol[NBRHS][3];
  for(int k = 0; k < 3; ++k) if(k < nb) { __CPROVER_assume(0 <= pidx[k] && pidx[k] < N); for(int j = 0; j < k; ++j) __CPROVER_assume(pidx[j] != pidx[k]); }
  struct CAT2(std_array_double_p_, NBDATA) dp; struct CAT2(std_array_long_p_, NBRHS) rp;
  for(int v = 0; v < NBDATA; ++v) dp.d[v] = col[v];
  for(int v = 0; v < NBRHS; ++v) rp.d[v] = rcol[v];
  TbfTree__getAllParticlesData__lam0__call(&clos, &lh, pidx, dp, rp);
  for(int k = 0; k < 3; ++k) if(k < nb) for(int v = 0; v < NBDATA; ++v)
    __CPROVER_assert(out[pidx[k]].d[v] == col[v][k] || col[v][k] != col[v][k], "C17: exported data entry i holds the values of the particle inserted at position i");
  CANARY();
}
/*@ harness bounded_export_leaf_rhs plain=1 unwind=5 bounded=particles/leaf<=3,N<=4 props=C17,C15 timeout=600 */
void bounded_export_leaf_rhs(void)
{
  long N, nb; __CPROVER_assume(1 <= N && N <= 4 && 0 <= nb && nb <= 3 && nb <= N);
  struct ARR_R out[4]; struct ARR_R *outp = out;
  struct TbfTree__getAllParticlesRhs__lam0 clos = { .cap_rhs = &outp };
  LeafHeader lh; lh.nbParticles = nb;
  long pidx[3]; double col[NBDATA][3]; long rcol[NBRHS][3];
  for(int k = 0; k < 3; ++k) if(k < nb) { __CPROVER_assume(0 <= pidx[k] && pidx[k] < N); for(int j = 0; j < k; ++j) __CPROVER_assume(pidx[j] != pidx[k]); }
  struct CAT2(std_array_double_p_, NBDATA) dp; struct CAT2(std_array_long_p_, NBRHS) rp;
  for(int v = 0; v < NBDATA; ++v) dp.d[v] = col[v];
  for(int v = 0; v < NBRHS; ++v) rp.d[v] = rcol[v];
  TbfTree__getAllParticlesRhs__lam0__call(&clos, &lh, pidx, dp, rp);
  for(int k = 0; k < 3; ++k) if(k < nb) for(int v = 0; v < NBRHS; ++v)
    __CPROVER_assert(out[pidx[k]].d[v] == rcol[v][k], "C17: exported result entry i holds the results of the particle inserted at position i");
  CANARY();
}

/*@ harness bounded_export_data tier=never plain=1 unwind=5 bounded=shapes:{2,1}|{2,1}+{1};all-index-permutations;all-values props=C17,C15 timeout=1200 */
void bounded_export_data(void)
{
  struct TbfTree t;
  long N = build_small_tree(&t);
  struct ARR_D *out = TbfTree__getAllParticlesData(&t);
  for(long p = 0; p < NPMAX; ++p) if(p < N && g_used[p])
    for(long v = 0; v < NBDATA; ++v)
      __CPROVER_assert(out[p].d[v] == g_val[p][v] || (g_val[p][v] != g_val[p][v]), "C17: exported data entry i holds the values of the particle inserted at position i");
  CANARY();
}
/*@ harness bounded_export_rhs tier=never plain=1 unwind=5 bounded=shapes:{2,1}|{2,1}+{1};all-index-permutations;all-values props=C17,C15 timeout=1200 */
void bounded_export_rhs(void)
{
  struct TbfTree t;
  long N = build_small_tree(&t);
  struct ARR_R *out = TbfTree__getAllParticlesRhs(&t);
  for(long p = 0; p < NPMAX; ++p) if(p < N && g_used[p])
    for(long v = 0; v < NBRHS; ++v)
      __CPROVER_assert(out[p].d[v] == g_rhs[p][v], "C17: exported result entry i holds the results of the particle inserted at position i");
  CANARY();
}
#endif
