/* tree.h - TbfTree bulk export (C17) and tree-level lookups (C16), src/core/tbftree.hpp.
 * BOUNDED STAND-IN for the export loops: every tree with <= 2 particle groups, <= 2 leaves per group and
 * <= 2 particles per leaf (<= NPMAX particles in total), all values symbolic, complete unwinding.
 * The statement checked is the property's: entry i of the exported array holds the values of the particle
 * whose original index is i. */
#ifdef SPEC_PART_MODEL
#include "prelude.h"
#define VEC_CAP 4
#include "stl_model.h"
#endif

#ifdef SPEC_PART_CONTRACTS
#define NPMAX 8
#define CAT2_(a, b) a##b
#define CAT2(a, b) CAT2_(a, b)
#define ARR_D CAT2(std_array_double_, NBDATA)
#define ARR_R CAT2(std_array_long_, NBRHS)
typedef struct TbfParticlesContainer PartGroup;
typedef struct TbfParticlesContainer__LeafHeader LeafHeader;
#endif

#ifdef SPEC_PART_HARNESS
_Bool nondet_bool(void); long nondet_long(void); double nondet_double(void);
static PartGroup g_groups[2];
static double g_val[NPMAX][NBDATA];   /* value v of the particle whose ORIGINAL index is p */
static long g_rhs[NPMAX][NBRHS];
static _Bool g_used[NPMAX];

/* build one particle group with nl <= 2 leaves of <= 2 particles; original indices are arbitrary distinct numbers below N */
static void build_group(PartGroup *g, long N)
{
  long nl; __CPROVER_assume(1 <= nl && nl <= 2);
  struct TbfParticlesContainer__ContainerHeader *h = malloc(sizeof(*h));
  LeafHeader *lv = malloc(2 * sizeof(LeafHeader));
  long *pidx = malloc(4 * sizeof(long));
  long *nb = malloc(4 * sizeof(long)), *nbr = malloc(sizeof(long));
  long np = 0;
  for(long l = 0; l < 2; ++l) if(l < nl) {
    long c; __CPROVER_assume(1 <= c && c <= 2);
    lv[l].nbParticles = c; lv[l].offSet = np; lv[l].spaceIndex = nondet_long();
    np += c;
  }
  const long ld = ((8 * np * NBDATA + 63) / 64) * 64, ldr = ((8 * np * NBRHS + 63) / 64) * 64;
  double *pd = malloc(NBDATA * (((8 * 4 * NBDATA + 63) / 64) * 64));
  long *pr = malloc(NBRHS * (((8 * 4 * NBRHS + 63) / 64) * 64));
  for(long k = 0; k < 4; ++k) if(k < np) {
    long p = nondet_long(); __CPROVER_assume(0 <= p && p < N && !g_used[p]);
    g_used[p] = 1; pidx[k] = p;
    for(long v = 0; v < NBDATA; ++v) { double x = nondet_double(); g_val[p][v] = x; ((double *)((unsigned char *)pd + v * ld))[k] = x; }
    for(long v = 0; v < NBRHS; ++v) { long x = nondet_long(); g_rhs[p][v] = x; ((long *)((unsigned char *)pr + v * ldr))[k] = x; }
  }
  h->nbLeaves = nl; h->nbParticles = np;
  nb[0] = 1; nb[1] = nl; nb[2] = np; nb[3] = np * NBDATA; *nbr = np * NBRHS;
  g->objectData.nbItemsInBlocks = nb; g->objectData.blockRawPtrs[0] = (unsigned char *)h; g->objectData.blockRawPtrs[1] = (unsigned char *)lv;
  g->objectData.blockRawPtrs[2] = (unsigned char *)pidx; g->objectData.blockRawPtrs[3] = (unsigned char *)pd;
  g->objectRhs.nbItemsInBlocks = nbr; g->objectRhs.blockRawPtrs[0] = (unsigned char *)pr;
}
static long build_small_tree(struct TbfTree *t)
{
  long N; __CPROVER_assume(1 <= N && N <= NPMAX);
  long ng; __CPROVER_assume(1 <= ng && ng <= 2);
  for(long p = 0; p < NPMAX; ++p) g_used[p] = 0;
  for(long i = 0; i < 2; ++i) if(i < ng) build_group(&g_groups[i], N);
  t->particleGroups.data = g_groups; t->particleGroups.size = ng; t->particleGroups.cap = 2;
  t->nbParticles = N;
  return N;
}

/*@ harness bounded_export_data plain=1 unwind=10 bounded=groups<=2,leaves<=2,particles/leaf<=2,N<=8 props=C17,C15 timeout=1200 */
void bounded_export_data(void)
{
  struct TbfTree t;
  long N = build_small_tree(&t);
  struct ARR_D *out = TbfTree__getAllParticlesData(&t);
  for(long p = 0; p < NPMAX; ++p) if(p < N && g_used[p])
    for(long v = 0; v < NBDATA; ++v)
      __CPROVER_assert(out[p].d[v] == g_val[p][v] || (g_val[p][v] != g_val[p][v]), "C17: exported data entry i holds the values of the particle inserted at position i");
  CANARY();
}
/*@ harness bounded_export_rhs plain=1 unwind=10 bounded=groups<=2,leaves<=2,particles/leaf<=2,N<=8 props=C17,C15 timeout=1200 */
void bounded_export_rhs(void)
{
  struct TbfTree t;
  long N = build_small_tree(&t);
  struct ARR_R *out = TbfTree__getAllParticlesRhs(&t);
  for(long p = 0; p < NPMAX; ++p) if(p < N && g_used[p])
    for(long v = 0; v < NBRHS; ++v)
      __CPROVER_assert(out[p].d[v] == g_rhs[p][v], "C17: exported result entry i holds the results of the particle inserted at position i");
  CANARY();
}
#endif
