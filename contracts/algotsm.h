/* algotsm.h - the sequential target/source executor (src/algorithms/sequential/tbfalgorithmtsm.hpp) with the real
 * extracted bodies of TbfAlgorithmTsm, TbfGroupKernelInterface, TbfMapIndexesAndBlocks and the per-group list builders,
 * run on enumerated pairs of small source / target trees (C09).
 * BOUNDED STAND-IN: DIM=1, height HEIGHT, source and target occupancies enumerated independently (<= MAXOCC leaves
 * each, one group per level), one particle per occupied leaf, upper working level enumerated.
 * Counting kernel: per-source-leaf counters.  C09 then reads: after execute(), every target leaf has counted every
 * occupied source leaf exactly once (its own position included), and nothing on the source side has changed. */
#ifdef SPEC_PART_MODEL
#include "prelude.h"
#ifndef VEC_CAP
#define VEC_CAP 12
#endif
#include "stl_model.h"
#endif

#ifdef SPEC_PART_CONTRACTS
#define LEAFLVL (HEIGHT - 1)
#define NCHILD (1L << DIM)
typedef struct TbfCellsContainer CellGroup;
typedef struct TbfParticlesContainer PartGroup;
typedef struct TbfCellsContainer__CellHeader CellHeader;
typedef struct TbfParticlesContainer__LeafHeader LeafHeader;
typedef struct VerifKernel Kernel;
#define CAT2_(a, b) a##b
#define CAT2(a, b) CAT2_(a, b)
#define ARR_CDATA CAT2(std_array_cdouble_p_, NBDATA)
#define ARR_RHS CAT2(std_array_long_p_, NBRHS)
long g_ops_ran; long g_min_level; _Bool ghost_cfg_equal;
_Bool TbfSpacialConfiguration__op_eq(const struct TbfSpacialConfiguration *self, const struct TbfSpacialConfiguration *other) { return ghost_cfg_equal; }
static inline long coord1(long idx) { return idx; } /* DIM == 1: the index is the coordinate */

/* ---- exactly additive counting kernel, with argument-geometry checks (C02) */
void K_P2M(Kernel *self, const CellHeader *symb, const long *idx, const struct ARR_CDATA *data, const long nb, struct VerifMultipole *out)
{
  g_ops_ran |= 2;
  __CPROVER_assert(0 <= symb->spaceIndex && symb->spaceIndex < NLEAF, "C02: P2M leaf index in range");
  __CPROVER_assert(out->self_index == symb->spaceIndex && out->self_level == LEAFLVL, "C02: P2M output multipole belongs to the leaf whose header is given");
  __CPROVER_assert(nb == 1 && idx[0] == symb->spaceIndex, "C02: P2M receives the particles of that leaf with their original index");
  out->c[symb->spaceIndex] += nb;
}
void K_M2M(Kernel *self, const CellHeader *symb, const long level, const struct std_vector_cVerifMultipole_p *children, struct VerifMultipole *out, const long *positions, const long nb)
{
  g_ops_ran |= 4;
  if(level < g_min_level) g_min_level = level;
  __CPROVER_assert(1 <= nb && nb <= NCHILD && nb == (long)children->size, "C02: M2M is never called with an empty or oversized child list");
  __CPROVER_assert(out->self_index == symb->spaceIndex && out->self_level == level, "C02: M2M parent multipole / header / level agree");
  for(long k = 0; k < nb; ++k) {
    const struct VerifMultipole *ch = children->data[k];
    __CPROVER_assert(ch->self_level == level + 1 && (ch->self_index >> DIM) == symb->spaceIndex, "C02: M2M children are children of the given parent at the given level");
    __CPROVER_assert(positions[k] == (ch->self_index & (NCHILD - 1)), "C02: M2M child position code is the child's octant");
    for(long j = 0; j < k; ++j) __CPROVER_assert(children->data[j] != ch, "C02: M2M children are distinct");
    for(long s = 0; s < NLEAF; ++s) out->c[s] += ch->c[s];
  }
}
void K_M2L(Kernel *self, const CellHeader *symb, const long level, const struct std_vector_cVerifMultipole_p *srcs, const long *positions, const long nb, struct VerifLocal *out)
{
  g_ops_ran |= 8;
  if(level < g_min_level) g_min_level = level;
  __CPROVER_assert(1 <= nb && nb == (long)srcs->size, "C02: M2L is never called with an empty source list");
  __CPROVER_assert(out->self_index == symb->spaceIndex && out->self_level == level, "C02: M2L target local / header / level agree");
  for(long k = 0; k < nb; ++k) {
    const struct VerifMultipole *src = srcs->data[k];
    long d = coord1(src->self_index) - coord1(symb->spaceIndex);
    __CPROVER_assert(src->self_level == level, "C02: M2L source is at the stated level");
    __CPROVER_assert(positions[k] == d + 3 && -3 <= d && d <= 3, "C02: M2L position code encodes the true relative offset");
    __CPROVER_assert((d >= 2 || d <= -2) && ((coord1(src->self_index) >> 1) - (coord1(symb->spaceIndex) >> 1) <= 1) && ((coord1(symb->spaceIndex) >> 1) - (coord1(src->self_index) >> 1) <= 1), "C02: M2L source is well separated and a child of a neighbour of the parent");
    for(long s = 0; s < NLEAF; ++s) out->c[s] += src->c[s];
  }
}
void K_L2L(Kernel *self, const CellHeader *symb, const long level, const struct VerifLocal *parent, struct std_vector_VerifLocal_p *children, const long *positions, const long nb)
{
  g_ops_ran |= 16;
  if(level < g_min_level) g_min_level = level;
  __CPROVER_assert(1 <= nb && nb <= NCHILD && nb == (long)children->size, "C02: L2L is never called with an empty or oversized child list");
  __CPROVER_assert(parent->self_index == symb->spaceIndex && parent->self_level == level, "C02: L2L parent local / header / level agree");
  for(long k = 0; k < nb; ++k) {
    struct VerifLocal *ch = children->data[k];
    __CPROVER_assert(ch->self_level == level + 1 && (ch->self_index >> DIM) == symb->spaceIndex, "C02: L2L children are children of the given parent at the given level");
    __CPROVER_assert(positions[k] == (ch->self_index & (NCHILD - 1)), "C02: L2L child position code is the child's octant");
    for(long j = 0; j < k; ++j) __CPROVER_assert(children->data[j] != ch, "C02: L2L children are distinct");
    for(long s = 0; s < NLEAF; ++s) ch->c[s] += parent->c[s];
  }
}
void K_L2P(Kernel *self, const CellHeader *symb, const struct VerifLocal *loc, const long *idx, const struct ARR_CDATA *data, struct ARR_RHS *rhs, const long nb)
{
  g_ops_ran |= 32;
  __CPROVER_assert(loc->self_index == symb->spaceIndex && loc->self_level == LEAFLVL, "C02: L2P local belongs to the leaf whose header is given");
  __CPROVER_assert(nb == 1 && idx[0] == symb->spaceIndex, "C02: L2P receives the particles of that leaf");
  for(long s = 0; s < NLEAF; ++s) rhs->d[s][0] += loc->c[s];
}
void K_P2PTsm(Kernel *self, const LeafHeader *ssymb, const long *sidx, const struct ARR_CDATA *sdata, const long snb,
              const LeafHeader *tsymb, const long *tidx, const struct ARR_CDATA *tdata, struct ARR_RHS *trhs, const long tnb, const long code)
{
  g_ops_ran |= 1;
  long d = coord1(ssymb->spaceIndex) - coord1(tsymb->spaceIndex);
  __CPROVER_assert(snb == 1 && tnb == 1 && sidx[0] == ssymb->spaceIndex && tidx[0] == tsymb->spaceIndex, "C02: P2PTsm receives the particles of the two leaves");
  __CPROVER_assert(-1 <= d && d <= 1, "C09: P2PTsm leaves coincide or are adjacent");
  __CPROVER_assert(code == d + 1, "C02: P2PTsm position code encodes the true relative offset");
  trhs->d[ssymb->spaceIndex][0] += snb;
}
#endif

#ifdef SPEC_PART_HARNESS
#define MAXCELLS NLEAF
/* side 0 = source tree, side 1 = target tree */
static CellGroup g_cellgroups[2][HEIGHT][MAXCELLS];
static struct std_vector_TbfCellsContainer g_levels[2][HEIGHT];
static PartGroup g_partgroups[2][MAXCELLS];
static long g_cells[2][HEIGHT][MAXCELLS], g_ncells[2][HEIGHT];
static struct VerifMultipole *g_mult[2][HEIGHT][MAXCELLS];
static struct VerifLocal *g_loc[2][HEIGHT][MAXCELLS];
static long *g_rhs_of_leaf[2][NLEAF][NBRHS];
static _Bool g_occ[2][NLEAF];

static void build_cell_group(int side, CellGroup *g, long level, long from, long cnt)
{
  struct TbfCellsContainer__ContainerHeader *h = malloc(sizeof(*h));
  CellHeader *c = malloc(MAXCELLS * sizeof(CellHeader));
  struct VerifMultipole *m = malloc(MAXCELLS * sizeof(*m));
  struct VerifLocal *l = malloc(MAXCELLS * sizeof(*l));
  long *nb = malloc(2 * sizeof(long)), *nbm = malloc(sizeof(long)), *nbl = malloc(sizeof(long));
  h->nbCells = cnt; h->startingSpaceIndex = g_cells[side][level][from]; h->endingSpaceIndex = g_cells[side][level][from + cnt - 1];
  nb[0] = 1; nb[1] = cnt; *nbm = cnt; *nbl = cnt;
  for(long i = 0; i < MAXCELLS; ++i) if(i < cnt) {
    c[i].spaceIndex = g_cells[side][level][from + i]; c[i].boxCoord.d[0] = g_cells[side][level][from + i];
    for(long s = 0; s < NLEAF; ++s) { m[i].c[s] = 0; l[i].c[s] = 0; }
    m[i].self_index = l[i].self_index = c[i].spaceIndex; m[i].self_level = l[i].self_level = level;
    g_mult[side][level][from + i] = &m[i]; g_loc[side][level][from + i] = &l[i];
  }
  g->objectData.nbItemsInBlocks = nb; g->objectData.blockRawPtrs[0] = (unsigned char *)h; g->objectData.blockRawPtrs[1] = (unsigned char *)c;
  g->objectMultipole.nbItemsInBlocks = nbm; g->objectMultipole.blockRawPtrs[0] = (unsigned char *)m;
  g->objectLocal.nbItemsInBlocks = nbl; g->objectLocal.blockRawPtrs[0] = (unsigned char *)l;
}
static void build_part_group(int side, PartGroup *g, long from, long cnt)
{
  struct TbfParticlesContainer__ContainerHeader *h = malloc(sizeof(*h));
  LeafHeader *c = malloc(MAXCELLS * sizeof(LeafHeader));
  long *pidx = malloc(MAXCELLS * sizeof(long));
  long ldr = ((8 * cnt * NBRHS + 63) / 64) * 64;
  double *pd = malloc(NBDATA * (((8 * MAXCELLS * NBDATA + 63) / 64) * 64));
  long *pr = malloc(NBRHS * (((8 * MAXCELLS * NBRHS + 63) / 64) * 64));
  long *nb = malloc(4 * sizeof(long)), *nbr = malloc(sizeof(long));
  h->nbLeaves = cnt; h->nbParticles = cnt; h->startingSpaceIndex = g_cells[side][LEAFLVL][from]; h->endingSpaceIndex = g_cells[side][LEAFLVL][from + cnt - 1];
  nb[0] = 1; nb[1] = cnt; nb[2] = cnt; nb[3] = cnt * NBDATA; *nbr = cnt * NBRHS;
  for(long i = 0; i < MAXCELLS; ++i) if(i < cnt) {
    c[i].spaceIndex = g_cells[side][LEAFLVL][from + i]; c[i].nbParticles = 1; c[i].offSet = i; c[i].boxCoord.d[0] = c[i].spaceIndex;
    pidx[i] = c[i].spaceIndex;
    for(long s = 0; s < NBRHS; ++s) { long *row = (long *)((unsigned char *)pr + s * ldr); row[i] = 0; g_rhs_of_leaf[side][c[i].spaceIndex][s] = &row[i]; }
  }
  g->objectData.nbItemsInBlocks = nb; g->objectData.blockRawPtrs[0] = (unsigned char *)h; g->objectData.blockRawPtrs[1] = (unsigned char *)c;
  g->objectData.blockRawPtrs[2] = (unsigned char *)pidx; g->objectData.blockRawPtrs[3] = (unsigned char *)pd;
  g->objectRhs.nbItemsInBlocks = nbr; g->objectRhs.blockRawPtrs[0] = (unsigned char *)pr;
}
static void build_side(int side, long occmask, long cutmask, struct std_vector_std_vector_TbfCellsContainer *cellBlocks, struct std_vector_TbfParticlesContainer *particleBlocks)
{
  long n = 0;
  for(long i = 0; i < NLEAF; ++i) { g_occ[side][i] = (occmask >> i) & 1; if(g_occ[side][i]) g_cells[side][LEAFLVL][n++] = i; }
  __CPROVER_assume(n >= 1);
  g_ncells[side][LEAFLVL] = n;
  for(long lv = LEAFLVL - 1; lv >= 0; --lv) {
    long m = 0;
    for(long i = 0; i < MAXCELLS; ++i) if(i < g_ncells[side][lv + 1]) { long p = g_cells[side][lv + 1][i] >> DIM; if(m == 0 || g_cells[side][lv][m - 1] != p) g_cells[side][lv][m++] = p; }
    g_ncells[side][lv] = m;
  }
  cellBlocks->data = g_levels[side]; cellBlocks->size = HEIGHT; cellBlocks->cap = HEIGHT;
  for(long lv = 0; lv < HEIGHT; ++lv) {
    long ng = 0, from = 0;
    for(long i = 0; i < MAXCELLS; ++i) if(i < g_ncells[side][lv]) {
      _Bool cut = (i + 1 == g_ncells[side][lv]) || ((cutmask >> (lv * NLEAF + i)) & 1);
      if(cut) {
        build_cell_group(side, &g_cellgroups[side][lv][ng], lv, from, i + 1 - from);
        if(lv == LEAFLVL) build_part_group(side, &g_partgroups[side][ng], from, i + 1 - from);
        ng++; from = i + 1;
      }
    }
    g_levels[side][lv].data = g_cellgroups[side][lv]; g_levels[side][lv].size = ng; g_levels[side][lv].cap = MAXCELLS;
    if(lv == LEAFLVL) { particleBlocks->data = g_partgroups[side]; particleBlocks->size = ng; particleBlocks->cap = MAXCELLS; }
  }
}

/*@ harness bounded_execute_tsm flags=max-field-sensitivity-array-size:4096 unwind=UNW unwindset=USET bounded=DIM,HEIGHT:enumerated-source-and-target-occupancies,1-particle-per-leaf plain=1 enumerate=tree2 props=C09,C02,C15 timeout=3000 mem=24000 */
void bounded_execute_tsm(void)
{
  struct TbfAlgorithmTsm algo; struct TbfVerifTreeTsm tree;
  build_side(0, CFG_OCC, CFG_CUTS, &tree.cellBlocksSource, &tree.particleBlocksSource);
  build_side(1, CFG_OCC2, CFG_CUTS2, &tree.cellBlocksTarget, &tree.particleBlocksTarget);
  tree.configuration.treeHeight = HEIGHT;
  algo.configuration.treeHeight = HEIGHT;
  algo.stopUpperLevel = CFG_STOP;
  ghost_cfg_equal = 1; g_ops_ran = 0; g_min_level = HEIGHT;
  ALGOT_execute(&algo, &tree, 63);
  /* C09: every target particle has exactly one contribution from every source particle, nothing else */
  for(long a = 0; a < NLEAF; ++a) if(g_occ[1][a])
    for(long b = 0; b < NLEAF; ++b)
      __CPROVER_assert(*g_rhs_of_leaf[1][a][b] == (g_occ[0][b] ? 1 : 0), "C09: each target leaf receives exactly one contribution from every occupied source leaf (its own position included) and nothing else");
  /* C09: source particles and source cells receive no results; target cells carry no multipole */
  for(long a = 0; a < NLEAF; ++a) if(g_occ[0][a])
    for(long b = 0; b < NLEAF; ++b)
      __CPROVER_assert(*g_rhs_of_leaf[0][a][b] == 0, "C09: source particles receive no results");
  for(long lv = 0; lv < HEIGHT; ++lv) {
    for(long i = 0; i < MAXCELLS; ++i) if(i < g_ncells[0][lv]) for(long s = 0; s < NLEAF; ++s) __CPROVER_assert(g_loc[0][lv][i]->c[s] == 0, "C09: source cells receive no local expansion");
    for(long i = 0; i < MAXCELLS; ++i) if(i < g_ncells[1][lv]) for(long s = 0; s < NLEAF; ++s) __CPROVER_assert(g_mult[1][lv][i]->c[s] == 0, "C09: target cells receive no multipole expansion");
  }
  __CPROVER_assert(g_min_level >= CFG_STOP, "C12: no cell operator is applied above the upper working level");
  CANARY();
}
#endif
#ifdef SPEC_PART_HARNESS
/*@ harness dbg_build plain=1 unwind=UNW tier=never props=DBG */
void dbg_build(void)
{
  struct TbfAlgorithmTsm algo; struct TbfVerifTreeTsm tree;
  build_side(0, 5, 0, &tree.cellBlocksSource, &tree.particleBlocksSource);
  build_side(1, 10, 0, &tree.cellBlocksTarget, &tree.particleBlocksTarget);
  tree.configuration.treeHeight = HEIGHT; algo.configuration.treeHeight = HEIGHT; algo.stopUpperLevel = 2;
#ifdef DBG_P2M
  ALGOT_P2M(&algo, &tree);
#endif
#ifdef DBG_M2L
  ALGOT_M2L(&algo, &tree);
#endif
#ifdef DBG_P2P
  ALGOT_P2P(&algo, &tree);
#endif
  __CPROVER_assert(g_ops_ran == 12345, "dbg");
}
#endif
