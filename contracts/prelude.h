/* prelude.h - fixed C text placed in front of every extracted unit.
 * Nothing here restates repository logic: it maps the handful of libc/libstdc++ scalar
 * helpers the extractor emits calls to (std::abs/min/max, memset) onto C. */
#ifndef VERIF_PRELUDE_H
#define VERIF_PRELUDE_H
#include <stddef.h>
#include <stdlib.h>
#ifndef __CPROVER
/* native compilation of the extracted text (differential test / replay): contracts vanish */
#define __CPROVER_requires(x)
#define __CPROVER_ensures(x)
#define __CPROVER_assigns(...)
#define __CPROVER_frees(...)
#define __CPROVER_loop_invariant(x)
#define __CPROVER_decreases(x)
#define __CPROVER_assert(c, m) do { if(!(c)) { __verif_native_assert_fail(m); } } while(0)
#define __CPROVER_assume(c) do { if(!(c)) { __verif_native_assume_fail(); } } while(0)
void __verif_native_assert_fail(const char*);
void __verif_native_assume_fail(void);
#endif
/* reachability canary: must be refuted, otherwise the harness is vacuous (runner reports infra) */
#define CANARY() __CPROVER_assert(0, "vacuity canary (must fail)")
static inline unsigned int __verif_hardware_concurrency(void) { unsigned int n = 4;
#ifdef __CPROVER
  unsigned int m; __CPROVER_assume(1 <= m && m <= 64); n = m;
#endif
  return n; }
static inline long __verif_abs_long(long x) { return x < 0 ? -x : x; }
static inline int __verif_abs_int(int x) { return x < 0 ? -x : x; }
static inline double __verif_abs_double(double x) { return x < 0 ? -x : x; }
static inline float __verif_abs_float(float x) { return x < 0 ? -x : x; }
static inline long __verif_min_long(long a, long b) { return b < a ? b : a; }
static inline long __verif_max_long(long a, long b) { return a < b ? b : a; }
static inline int __verif_min_int(int a, int b) { return b < a ? b : a; }
static inline int __verif_max_int(int a, int b) { return a < b ? b : a; }
static inline unsigned long __verif_min_unsigned_long(unsigned long a, unsigned long b) { return b < a ? b : a; }
static inline unsigned long __verif_max_unsigned_long(unsigned long a, unsigned long b) { return a < b ? b : a; }
static inline double __verif_min_double(double a, double b) { return b < a ? b : a; }
static inline double __verif_max_double(double a, double b) { return a < b ? b : a; }

/* std::numeric_limits<T>::epsilon()/max()/min()/lowest() */
#define __verif_FLT_EPSILON 1.1920928955078125e-7f
#define __verif_DBL_EPSILON 2.220446049250313080847263336181640625e-16
#define __verif_FLT_MAX 3.40282346638528859811704183484516925e+38f
#define __verif_DBL_MAX 1.79769313486231570814527423731704357e+308
#define __verif_FLT_MIN 1.17549435082228750796873653722224568e-38f
#define __verif_DBL_MIN 2.22507385850720138309023271733240406e-308
#define __verif_INT_MAX 2147483647
#define __verif_INT_MIN (-2147483647 - 1)
#define __verif_LONG_MAX 9223372036854775807L
#define __verif_LONG_MIN (-9223372036854775807L - 1)
#define __verif_ULONG_MAX 18446744073709551615UL
#define __verif_UINT_MAX 4294967295U
/* getenv: the checks assume the environment variable is NOT set (stated in the evidence of the unit that uses it) */
static inline char *__verif_getenv(const char *name) { (void)name; return (char *)0; }
#endif
