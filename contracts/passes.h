/* Unit "passes": the per-level group-pairing loops of the sequential executor (TbfAlgorithm::P2M, M2M, L2L, L2P),
 * real extracted bodies, with the kernel-interface wrappers replaced by logging stubs.  Together with the wrapper
 * checks of unit kernelif (which assume exactly the pairing precondition established here) this carries C01/C02/C08
 * through the executor without running the whole executor in one query.
 * BOUNDED: DIM=1, tree height HEIGHT, occupancy of the NLEAF leaf cells, partition of every level into groups and
 * upper working level enumerated concretely by the runner (all of them at HEIGHT=3, a seeded sample at HEIGHT=4;
 * the fully symbolic version of this harness ran out of memory), complete unwinding. */
#ifdef SPEC_PART_MODEL
#include "prelude.h"
#ifndef VEC_CAP
#define VEC_CAP 12
#endif
#include "stl_model.h"
#endif

#ifdef SPEC_PART_CONTRACTS
#define LEAFLVL (HEIGHT - 1)
typedef struct TbfCellsContainer CellGroup;
typedef struct TbfParticlesContainer PartGroup;
typedef struct TbfCellsContainer__CellHeader CellHeader;
typedef struct TbfParticlesContainer__LeafHeader LeafHeader;
typedef struct VerifKernel Kernel;
#define PLOGCAP (2 * NLEAF)
struct plog { int op; long level; const void *a, *b; };
static struct plog g_plog[PLOGCAP]; static long g_plog_n;
static inline void plog_add(int op, long level, const void *a, const void *b)
{
  __CPROVER_assert(g_plog_n < PLOGCAP, "model: pass log capacity sufficient");
  g_plog[g_plog_n].op = op; g_plog[g_plog_n].level = level; g_plog[g_plog_n].a = a; g_plog[g_plog_n].b = b; g_plog_n++;
}
void KI_P2M(const struct TbfGroupKernelInterface *self, Kernel *k, const PartGroup *pg, CellGroup *cg) { plog_add(0, -1, pg, cg); }
void KI_L2P(const struct TbfGroupKernelInterface *self, Kernel *k, const CellGroup *cg, PartGroup *pg) { plog_add(6, -1, pg, cg); }
void KI_M2M(const struct TbfGroupKernelInterface *self, const long level, Kernel *k, const CellGroup *lower, CellGroup *upper) { plog_add(3, level, lower, upper); }
void KI_L2L(const struct TbfGroupKernelInterface *self, const long level, Kernel *k, const CellGroup *upper, CellGroup *lower) { plog_add(5, level, lower, upper); }
#endif

#ifdef SPEC_PART_HARNESS
_Bool nondet_bool(void);
#define MAXCELLS NLEAF
static CellGroup g_cellgroups[HEIGHT][MAXCELLS];
static struct std_vector_TbfCellsContainer g_levels[HEIGHT];
static PartGroup g_partgroups[MAXCELLS];
static long g_cells[HEIGHT][MAXCELLS], g_ncells[HEIGHT], g_ngroups[HEIGHT];
static long g_from[HEIGHT][MAXCELLS], g_cnt[HEIGHT][MAXCELLS];

static struct TbfCellsContainer__ContainerHeader g_hdr[HEIGHT][MAXCELLS]; static long g_nb[HEIGHT][MAXCELLS][2];
static struct TbfParticlesContainer__ContainerHeader g_phdr[MAXCELLS]; static long g_pnb[MAXCELLS][4];
static void build_cell_group(CellGroup *g, long level, long from, long cnt)
{
  struct TbfCellsContainer__ContainerHeader *h = &g_hdr[level][from];
  h->nbCells = cnt; h->startingSpaceIndex = g_cells[level][from]; h->endingSpaceIndex = g_cells[level][from + cnt - 1];
  long *nb = g_nb[level][from]; nb[0] = 1; nb[1] = cnt;
  g->objectData.blockRawPtrs[0] = (unsigned char *)h; g->objectData.nbItemsInBlocks = nb;   /* the passes read the group headers only */
}
static void build_tree(struct TbfVerifTree *t)
{
  long n = 0;
  for(long i = 0; i < NLEAF; ++i) if((CFG_OCC >> i) & 1) g_cells[LEAFLVL][n++] = i;
  __CPROVER_assume(n >= 1);
  g_ncells[LEAFLVL] = n;
  for(long lv = LEAFLVL - 1; lv >= 0; --lv) {
    long m = 0;
    for(long i = 0; i < MAXCELLS; ++i) if(i < g_ncells[lv + 1]) { long p = g_cells[lv + 1][i] >> DIM; if(m == 0 || g_cells[lv][m - 1] != p) g_cells[lv][m++] = p; }
    g_ncells[lv] = m;
  }
  t->cellBlocks.data = g_levels; t->cellBlocks.size = HEIGHT; t->cellBlocks.cap = HEIGHT;
  for(long lv = 0; lv < HEIGHT; ++lv) {
    long ng = 0, from = 0;
    for(long i = 0; i < MAXCELLS; ++i) if(i < g_ncells[lv]) {
      _Bool cut = (i + 1 == g_ncells[lv]) || ((CFG_CUTS >> (lv * NLEAF + i)) & 1);
      if(cut) { build_cell_group(&g_cellgroups[lv][ng], lv, from, i + 1 - from);
        if(lv == LEAFLVL) { struct TbfParticlesContainer__ContainerHeader *ph = &g_phdr[from]; ph->nbLeaves = i + 1 - from; ph->startingSpaceIndex = g_cells[lv][from]; ph->endingSpaceIndex = g_cells[lv][i]; g_partgroups[ng].objectData.blockRawPtrs[0] = (unsigned char *)ph; long *pnb = g_pnb[from]; pnb[0] = 1; pnb[1] = i + 1 - from; g_partgroups[ng].objectData.nbItemsInBlocks = pnb; } g_from[lv][ng] = from; g_cnt[lv][ng] = i + 1 - from; ng++; from = i + 1; }
    }
    g_ngroups[lv] = ng;
    g_levels[lv].data = g_cellgroups[lv]; g_levels[lv].size = ng; g_levels[lv].cap = MAXCELLS;
    if(lv == LEAFLVL) { t->particleBlocks.data = g_partgroups; t->particleBlocks.size = ng; t->particleBlocks.cap = MAXCELLS; }
  }
  t->configuration.treeHeight = HEIGHT;
}
/* a parent-child link exists between lower group a (level lv+1) and upper group b (level lv) */
static _Bool linked(long lv, long a, long b)
{
  for(long i = 0; i < MAXCELLS; ++i) if(i < g_cnt[lv + 1][a]) {
    long p = g_cells[lv + 1][g_from[lv + 1][a] + i] >> DIM;
    if(g_cells[lv][g_from[lv][b]] <= p && p <= g_cells[lv][g_from[lv][b] + g_cnt[lv][b] - 1]) return 1;
  }
  return 0;
}
static long g_stop;
static void init_algo(struct TbfAlgorithm *algo) { algo->configuration.treeHeight = HEIGHT; g_stop = CFG_STOP; algo->stopUpperLevel = g_stop; }
static void check_pairs(int op, _Bool bottom_up)
{
  long total = 0;
  for(long lv = 0; lv + 1 < HEIGHT; ++lv)
    for(long a = 0; a < MAXCELLS; ++a) if(a < g_ngroups[lv + 1])
      for(long b = 0; b < MAXCELLS; ++b) if(b < g_ngroups[lv]) {
        long cnt = 0;
        for(long c = 0; c < PLOGCAP; ++c) if(c < g_plog_n && g_plog[c].a == (const void *)&g_cellgroups[lv + 1][a] && g_plog[c].b == (const void *)&g_cellgroups[lv][b]) {
          cnt++;
          __CPROVER_assert(g_plog[c].level == lv, "C02: the level handed to the wrapper is the level of the parent group");
        }
        _Bool want = lv >= g_stop && linked(lv, a, b);
        __CPROVER_assert(cnt == (want ? 1 : 0), "C01: a (lower group, upper group) pair is visited exactly once iff it is at a level >= the upper working level and a parent-child link exists between the two groups");
        total += cnt;
      }
  __CPROVER_assert(total == g_plog_n, "C01: no other wrapper call is made");
  for(long c = 0; c < PLOGCAP; ++c) if(c < g_plog_n) {
    __CPROVER_assert(g_plog[c].op == op, "C12: the pass calls only its own operator");
    if(c + 1 < g_plog_n) __CPROVER_assert(bottom_up ? g_plog[c].level >= g_plog[c + 1].level : g_plog[c].level <= g_plog[c + 1].level, "C08: levels are processed in dependency order (children before parents going up, parents before children going down)");
  }
}
/*@ harness bounded_pass_m2m plain=1 unwind=UNW enumerate=tree bounded=DIM=1,HEIGHT,enumerated-occupancy-and-grouping props=C01,C02,C08,C15 timeout=1500 */
void bounded_pass_m2m(void)
{
  struct TbfAlgorithm algo; struct TbfVerifTree tree;
  build_tree(&tree); init_algo(&algo); g_plog_n = 0;
  ALGO_M2M(&algo, &tree);
  check_pairs(3, 1);
  CANARY();
}
/*@ harness bounded_pass_l2l plain=1 unwind=UNW enumerate=tree bounded=DIM=1,HEIGHT,enumerated-occupancy-and-grouping props=C01,C02,C08,C15 timeout=1500 */
void bounded_pass_l2l(void)
{
  struct TbfAlgorithm algo; struct TbfVerifTree tree;
  build_tree(&tree); init_algo(&algo); g_plog_n = 0;
  ALGO_L2L(&algo, &tree);
  check_pairs(5, 0);
  CANARY();
}
static void check_leaf_pairs(int op)
{
  __CPROVER_assert(g_plog_n == g_ngroups[LEAFLVL], "C01: one wrapper call per leaf group");
  for(long c = 0; c < MAXCELLS; ++c) if(c < g_plog_n)
    __CPROVER_assert(g_plog[c].op == op && g_plog[c].a == (const void *)&g_partgroups[c] && g_plog[c].b == (const void *)&g_cellgroups[LEAFLVL][c], "C02: particle group i is paired with leaf cell group i");
}
/*@ harness bounded_pass_p2m plain=1 unwind=UNW enumerate=tree bounded=DIM=1,HEIGHT,enumerated-occupancy-and-grouping props=C01,C02,C15 timeout=1500 */
void bounded_pass_p2m(void)
{
  struct TbfAlgorithm algo; struct TbfVerifTree tree;
  build_tree(&tree); init_algo(&algo); g_plog_n = 0;
  ALGO_P2M(&algo, &tree);
  check_leaf_pairs(0);
  CANARY();
}
/*@ harness bounded_pass_l2p plain=1 unwind=UNW enumerate=tree bounded=DIM=1,HEIGHT,enumerated-occupancy-and-grouping props=C01,C02,C15 timeout=1500 */
void bounded_pass_l2p(void)
{
  struct TbfAlgorithm algo; struct TbfVerifTree tree;
  build_tree(&tree); init_algo(&algo); g_plog_n = 0;
  ALGO_L2P(&algo, &tree);
  check_leaf_pairs(6);
  CANARY();
}
#endif
