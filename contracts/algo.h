/* algo.h - the sequential executor (src/algorithms/sequential/tbfalgorithm.hpp) together with
 * TbfGroupKernelInterface, TbfAlgorithmUtils::TbfMapIndexesAndBlocks and the per-group list builders,
 * all with their REAL extracted bodies, executed symbolically on EVERY tree of a small shape.
 *
 * BOUNDED STAND-IN (labelled as such in the evidence, never counted as a proof):
 *   dimension DIM (1), tree height HEIGHT (3 or 4), every non-empty leaf-occupancy pattern, every partition
 *   of every level into consecutive non-empty groups (this subsumes every block size and both parent-grouping
 *   modes), one particle per occupied leaf, upper working level 0..2, every operator-flag subset sequence used.
 * The kernel is an exactly additive counting kernel: multipole / local / particle results are vectors of
 * per-source-leaf counters.  C01 then reads: after execute(), leaf a has counted every other occupied leaf
 * exactly once and itself never.  The kernel model also checks the geometry of every call (C02) and records
 * which operators ran (C12). */
#ifdef SPEC_PART_MODEL
#include "prelude.h"
#ifndef VEC_CAP
#define VEC_CAP 12
#endif
#include "stl_model.h"
#endif

#ifdef SPEC_PART_CONTRACTS
#define LEAFLVL (HEIGHT - 1)
#define NCHILD (1L << DIM)
typedef struct TbfCellsContainer CellGroup;
typedef struct TbfParticlesContainer PartGroup;
typedef struct TbfCellsContainer__CellHeader CellHeader;
typedef struct TbfParticlesContainer__LeafHeader LeafHeader;
typedef struct VerifKernel Kernel;
#define CAT2_(a, b) a##b
#define CAT2(a, b) CAT2_(a, b)
#define ARR_CDATA CAT2(std_array_cdouble_p_, NBDATA)
#define ARR_RHS CAT2(std_array_long_p_, NBRHS)

long g_ops_ran;          /* bit mask of operators that were invoked (C12) */
long g_min_level;        /* smallest level argument seen by a cell operator */
_Bool ghost_cfg_equal;   /* precondition of execute(): the executor's configuration equals the tree's */

#ifdef PLAIN_STUBS
_Bool TbfSpacialConfiguration__op_eq(const struct TbfSpacialConfiguration *self, const struct TbfSpacialConfiguration *other) { return ghost_cfg_equal; }
#else
_Bool TbfSpacialConfiguration__op_eq(const struct TbfSpacialConfiguration *self, const struct TbfSpacialConfiguration *other)
__CPROVER_requires(1) __CPROVER_ensures(__CPROVER_return_value == ghost_cfg_equal) __CPROVER_assigns();
#endif

/* ---- C12 dispatch: the six passes as recording contracts (their bodies are covered by the bounded runs and by kernelif) */
long g_seq[8]; long g_nseq;
#define PASS_CONTRACT(NAME, ID) void ALGO_##NAME(struct TbfAlgorithm *self, struct TbfVerifTree *inTree) \
  __CPROVER_requires(0 <= g_nseq && g_nseq < 7) \
  __CPROVER_ensures(g_nseq == __CPROVER_old(g_nseq) + 1 && g_seq[__CPROVER_old(g_nseq)] == ID) \
  __CPROVER_assigns(g_nseq, g_seq[g_nseq]);
#ifdef DISPATCH_ONLY
PASS_CONTRACT(P2M, 2) PASS_CONTRACT(M2M, 4) PASS_CONTRACT(M2L, 8) PASS_CONTRACT(L2L, 16) PASS_CONTRACT(L2P, 32) PASS_CONTRACT(P2P, 1)
static inline _Bool spec_dispatch_ok(int ops)
{
  const long order[6] = {2, 4, 8, 16, 32, 1};   /* natural order: P2M M2M M2L L2L L2P P2P */
  long n = 0;
  for(int k = 0; k < 6; ++k) if(ops & order[k]) { if(n >= g_nseq || g_seq[n] != order[k]) return 0; n++; }
  return n == g_nseq;
}
void ALGO_execute(struct TbfAlgorithm *self, struct TbfVerifTree *inTree, const int inOperationToProceed)
__CPROVER_requires(g_nseq == 0 && ghost_cfg_equal)
__CPROVER_ensures(spec_dispatch_ok(inOperationToProceed))
__CPROVER_assigns(g_nseq, __CPROVER_object_whole(g_seq));
#endif

static inline long coord1(long idx) { return idx; } /* DIM == 1: the index is the coordinate */

/* ---- exactly additive counting kernel, with argument-geometry checks (C02) */
void K_P2M(Kernel *self, const CellHeader *symb, const long *idx, const struct ARR_CDATA *data, const long nb, struct VerifMultipole *out)
{
  g_ops_ran |= 2;
  __CPROVER_assert(0 <= symb->spaceIndex && symb->spaceIndex < NLEAF, "C02: P2M leaf index in range");
  __CPROVER_assert(out->self_index == symb->spaceIndex && out->self_level == LEAFLVL, "C02: P2M output multipole belongs to the leaf whose header is given");
  __CPROVER_assert(nb == 1 && idx[0] == symb->spaceIndex, "C02: P2M receives the particles of that leaf with their original index");
  out->c[symb->spaceIndex] += nb;
}
void K_M2M(Kernel *self, const CellHeader *symb, const long level, const struct std_vector_cVerifMultipole_p *children, struct VerifMultipole *out, const long *positions, const long nb)
{
  g_ops_ran |= 4;
  if(level < g_min_level) g_min_level = level;
  __CPROVER_assert(1 <= nb && nb <= NCHILD && nb == (long)children->size, "C02: M2M is never called with an empty or oversized child list");
  __CPROVER_assert(out->self_index == symb->spaceIndex && out->self_level == level, "C02: M2M parent multipole / header / level agree");
  for(long k = 0; k < nb; ++k) {
    const struct VerifMultipole *ch = children->data[k];
    __CPROVER_assert(ch->self_level == level + 1 && (ch->self_index >> DIM) == symb->spaceIndex, "C02: M2M children are children of the given parent at the given level");
    __CPROVER_assert(positions[k] == (ch->self_index & (NCHILD - 1)), "C02: M2M child position code is the child's octant");
    for(long j = 0; j < k; ++j) __CPROVER_assert(children->data[j] != ch, "C02: M2M children are distinct");
    for(long s = 0; s < NLEAF; ++s) out->c[s] += ch->c[s];
  }
}
void K_M2L(Kernel *self, const CellHeader *symb, const long level, const struct std_vector_cVerifMultipole_p *srcs, const long *positions, const long nb, struct VerifLocal *out)
{
  g_ops_ran |= 8;
  if(level < g_min_level) g_min_level = level;
  __CPROVER_assert(1 <= nb && nb == (long)srcs->size, "C02: M2L is never called with an empty source list");
  __CPROVER_assert(out->self_index == symb->spaceIndex && out->self_level == level, "C02: M2L target local / header / level agree");
  for(long k = 0; k < nb; ++k) {
    const struct VerifMultipole *src = srcs->data[k];
    long d = coord1(src->self_index) - coord1(symb->spaceIndex);
    __CPROVER_assert(src->self_level == level, "C02: M2L source is at the stated level");
    __CPROVER_assert(positions[k] == d + 3 && -3 <= d && d <= 3, "C02: M2L position code encodes the true relative offset");
    __CPROVER_assert((d >= 2 || d <= -2) && ((coord1(src->self_index) >> 1) - (coord1(symb->spaceIndex) >> 1) <= 1) && ((coord1(symb->spaceIndex) >> 1) - (coord1(src->self_index) >> 1) <= 1), "C02: M2L source is well separated and a child of a neighbour of the parent");
    for(long s = 0; s < NLEAF; ++s) out->c[s] += src->c[s];
  }
}
void K_L2L(Kernel *self, const CellHeader *symb, const long level, const struct VerifLocal *parent, struct std_vector_VerifLocal_p *children, const long *positions, const long nb)
{
  g_ops_ran |= 16;
  if(level < g_min_level) g_min_level = level;
  __CPROVER_assert(1 <= nb && nb <= NCHILD && nb == (long)children->size, "C02: L2L is never called with an empty or oversized child list");
  __CPROVER_assert(parent->self_index == symb->spaceIndex && parent->self_level == level, "C02: L2L parent local / header / level agree");
  for(long k = 0; k < nb; ++k) {
    struct VerifLocal *ch = children->data[k];
    __CPROVER_assert(ch->self_level == level + 1 && (ch->self_index >> DIM) == symb->spaceIndex, "C02: L2L children are children of the given parent at the given level");
    __CPROVER_assert(positions[k] == (ch->self_index & (NCHILD - 1)), "C02: L2L child position code is the child's octant");
    for(long j = 0; j < k; ++j) __CPROVER_assert(children->data[j] != ch, "C02: L2L children are distinct");
    for(long s = 0; s < NLEAF; ++s) ch->c[s] += parent->c[s];
  }
}
void K_L2P(Kernel *self, const CellHeader *symb, const struct VerifLocal *loc, const long *idx, const struct ARR_CDATA *data, struct ARR_RHS *rhs, const long nb)
{
  g_ops_ran |= 32;
  __CPROVER_assert(loc->self_index == symb->spaceIndex && loc->self_level == LEAFLVL, "C02: L2P local belongs to the leaf whose header is given");
  __CPROVER_assert(nb == 1 && idx[0] == symb->spaceIndex, "C02: L2P receives the particles of that leaf");
  for(long s = 0; s < NLEAF; ++s) rhs->d[s][0] += loc->c[s];
}
void K_P2P(Kernel *self, const LeafHeader *ssymb, const long *sidx, const struct ARR_CDATA *sdata, struct ARR_RHS *srhs, const long snb,
           const LeafHeader *tsymb, const long *tidx, const struct ARR_CDATA *tdata, struct ARR_RHS *trhs, const long tnb, const long code)
{
  g_ops_ran |= 1;
  long d = coord1(ssymb->spaceIndex) - coord1(tsymb->spaceIndex);
  __CPROVER_assert(snb == 1 && tnb == 1 && sidx[0] == ssymb->spaceIndex && tidx[0] == tsymb->spaceIndex, "C02: P2P receives the particles of the two leaves");
  __CPROVER_assert(d == 1 || d == -1, "C02: P2P leaves are adjacent and distinct");
  __CPROVER_assert(code == d + 1, "C02: P2P position code encodes the true relative offset");
  trhs->d[ssymb->spaceIndex][0] += snb;
  srhs->d[tsymb->spaceIndex][0] += tnb;
}
void K_P2PInner(Kernel *self, const LeafHeader *symb, const long *idx, const struct ARR_CDATA *data, struct ARR_RHS *rhs, const long nb)
{
  g_ops_ran |= 64;
  __CPROVER_assert(nb == 1 && idx[0] == symb->spaceIndex, "C02: P2PInner receives the particles of that leaf");
  /* pairs inside the leaf, self term excluded: nb*(nb-1) contributions from the leaf itself */
  rhs->d[symb->spaceIndex][0] += nb - 1;
}
#endif

/* ===================================================================================== */
#ifdef SPEC_PART_HARNESS
_Bool nondet_bool(void);
#define MAXCELLS NLEAF

/* ---- harness-side construction of a tree with the layout the real containers use (trusted harness code) */
static CellGroup g_cellgroups[HEIGHT][MAXCELLS];
static struct std_vector_TbfCellsContainer g_levels[HEIGHT];
static PartGroup g_partgroups[MAXCELLS];
static long g_cells[HEIGHT][MAXCELLS], g_ncells[HEIGHT];
static struct VerifMultipole *g_mult[HEIGHT][MAXCELLS];   /* cell -> its multipole / local (for the final checks) */
static struct VerifLocal *g_loc[HEIGHT][MAXCELLS];
static long *g_rhs_of_leaf[NLEAF][NBRHS];

static void build_cell_group(CellGroup *g, long level, long from, long cnt)
{
  struct TbfCellsContainer__ContainerHeader *h = malloc(sizeof(*h));
  CellHeader *c = malloc(MAXCELLS * sizeof(CellHeader));
  struct VerifMultipole *m = malloc(MAXCELLS * sizeof(*m));
  struct VerifLocal *l = malloc(MAXCELLS * sizeof(*l));
  long *nb = malloc(2 * sizeof(long)), *nbm = malloc(sizeof(long)), *nbl = malloc(sizeof(long));
  h->nbCells = cnt; h->startingSpaceIndex = g_cells[level][from]; h->endingSpaceIndex = g_cells[level][from + cnt - 1];
  nb[0] = 1; nb[1] = cnt; *nbm = cnt; *nbl = cnt;
  for(long i = 0; i < MAXCELLS; ++i) if(i < cnt) {
    c[i].spaceIndex = g_cells[level][from + i]; c[i].boxCoord.d[0] = g_cells[level][from + i];
    for(long s = 0; s < NLEAF; ++s) { m[i].c[s] = 0; l[i].c[s] = 0; }
    m[i].self_index = l[i].self_index = c[i].spaceIndex; m[i].self_level = l[i].self_level = level;
    g_mult[level][from + i] = &m[i]; g_loc[level][from + i] = &l[i];
  }
  g->objectData.nbItemsInBlocks = nb; g->objectData.blockRawPtrs[0] = (unsigned char *)h; g->objectData.blockRawPtrs[1] = (unsigned char *)c;
  g->objectMultipole.nbItemsInBlocks = nbm; g->objectMultipole.blockRawPtrs[0] = (unsigned char *)m;
  g->objectLocal.nbItemsInBlocks = nbl; g->objectLocal.blockRawPtrs[0] = (unsigned char *)l;
}
static void build_part_group(PartGroup *g, long from, long cnt)
{
  /* one particle per leaf, original index == leaf index; rows of the rhs block = per-source counters */
  struct TbfParticlesContainer__ContainerHeader *h = malloc(sizeof(*h));
  LeafHeader *c = malloc(MAXCELLS * sizeof(LeafHeader));
  long *pidx = malloc(MAXCELLS * sizeof(long));
  long ld = ((8 * cnt * NBDATA + 63) / 64) * 64, ldr = ((8 * cnt * NBRHS + 63) / 64) * 64;
  double *pd = malloc(NBDATA * (((8 * MAXCELLS * NBDATA + 63) / 64) * 64));
  long *pr = malloc(NBRHS * (((8 * MAXCELLS * NBRHS + 63) / 64) * 64));
  long *nb = malloc(4 * sizeof(long)), *nbr = malloc(sizeof(long));
  h->nbLeaves = cnt; h->nbParticles = cnt; h->startingSpaceIndex = g_cells[LEAFLVL][from]; h->endingSpaceIndex = g_cells[LEAFLVL][from + cnt - 1];
  nb[0] = 1; nb[1] = cnt; nb[2] = cnt; nb[3] = cnt * NBDATA; *nbr = cnt * NBRHS;
  for(long i = 0; i < MAXCELLS; ++i) if(i < cnt) {
    c[i].spaceIndex = g_cells[LEAFLVL][from + i]; c[i].nbParticles = 1; c[i].offSet = i; c[i].boxCoord.d[0] = c[i].spaceIndex;
    pidx[i] = c[i].spaceIndex;
    for(long s = 0; s < NBRHS; ++s) { long *row = (long *)((unsigned char *)pr + s * ldr); row[i] = 0; g_rhs_of_leaf[c[i].spaceIndex][s] = &row[i]; }
  }
  g->objectData.nbItemsInBlocks = nb; g->objectData.blockRawPtrs[0] = (unsigned char *)h; g->objectData.blockRawPtrs[1] = (unsigned char *)c;
  g->objectData.blockRawPtrs[2] = (unsigned char *)pidx; g->objectData.blockRawPtrs[3] = (unsigned char *)pd;
  g->objectRhs.nbItemsInBlocks = nbr; g->objectRhs.blockRawPtrs[0] = (unsigned char *)pr;
}
static _Bool g_occ[NLEAF];
static void build_tree(struct TbfVerifTree *t)
{
  /* occupancy: any non-empty subset of the NLEAF leaf cells */
  long n = 0;
#ifdef CFG_OCC
  /* concrete configuration (enumerated by the runner): occupancy mask CFG_OCC, cut masks CFG_CUTS(level) */
  for(long i = 0; i < NLEAF; ++i) { g_occ[i] = (CFG_OCC >> i) & 1; if(g_occ[i]) g_cells[LEAFLVL][n++] = i; }
#else
  for(long i = 0; i < NLEAF; ++i) { g_occ[i] = nondet_bool(); if(g_occ[i]) g_cells[LEAFLVL][n++] = i; }
#endif
  __CPROVER_assume(n >= 1);
  g_ncells[LEAFLVL] = n;
  for(long lv = LEAFLVL - 1; lv >= 0; --lv) {            /* ancestor closure, sorted, no duplicates */
    long m = 0;
    for(long i = 0; i < MAXCELLS; ++i) if(i < g_ncells[lv + 1]) { long p = g_cells[lv + 1][i] >> DIM; if(m == 0 || g_cells[lv][m - 1] != p) g_cells[lv][m++] = p; }
    g_ncells[lv] = m;
  }
  t->cellBlocks.data = g_levels; t->cellBlocks.size = HEIGHT; t->cellBlocks.cap = HEIGHT;
  for(long lv = 0; lv < HEIGHT; ++lv) {
    /* any partition of the level into consecutive non-empty groups */
    long ng = 0, from = 0;
    for(long i = 0; i < MAXCELLS; ++i) if(i < g_ncells[lv]) {
#ifdef CFG_OCC
      _Bool cut = (i + 1 == g_ncells[lv]) || ((CFG_CUTS >> (lv * NLEAF + i)) & 1);
#else
      _Bool cut = (i + 1 == g_ncells[lv]) || nondet_bool();
#endif
      if(cut) {
        build_cell_group(&g_cellgroups[lv][ng], lv, from, i + 1 - from);
        if(lv == LEAFLVL) build_part_group(&g_partgroups[ng], from, i + 1 - from);
        ng++; from = i + 1;
      }
    }
    g_levels[lv].data = g_cellgroups[lv]; g_levels[lv].size = ng; g_levels[lv].cap = MAXCELLS;
    if(lv == LEAFLVL) { t->particleBlocks.data = g_partgroups; t->particleBlocks.size = ng; t->particleBlocks.cap = MAXCELLS; }
  }
  t->configuration.treeHeight = HEIGHT;
}
static _Bool leaf_in_cell(long leaf, long level, long cell) { return (leaf >> (DIM * (LEAFLVL - level))) == cell; }

/*@ harness h_dispatch enforce=ALGO_execute replace=ALGO_P2M,ALGO_M2M,ALGO_M2L,ALGO_L2L,ALGO_L2P,ALGO_P2P,TbfSpacialConfiguration__op_eq unwind=8 defs=DISPATCH_ONLY props=C12,C15 */
void h_dispatch(void)
{
  struct TbfAlgorithm algo; struct TbfVerifTree tree; int ops;
  g_nseq = 0; ghost_cfg_equal = 1;
  ALGO_execute(&algo, &tree, ops);
  CANARY();
}

/*@ harness bounded_execute_full flags=max-field-sensitivity-array-size:4096 unwind=UNW unwindset=USET bounded=DIM,HEIGHT:all-occupancies,all-groupings,1-particle-per-leaf plain=1 enumerate=tree defs=PLAIN_STUBS props=C01,C02,C08,C09x,C15 timeout=3000 mem=24000 */
void bounded_execute_full(void)
{
  struct TbfAlgorithm algo; struct TbfVerifTree tree;
  build_tree(&tree);
  algo.configuration.treeHeight = HEIGHT;
#ifdef CFG_STOP
  long stop = CFG_STOP;
#else
  long stop; __CPROVER_assume(0 <= stop && stop <= 2);
#endif
  algo.stopUpperLevel = stop;
  ghost_cfg_equal = 1; g_ops_ran = 0; g_min_level = HEIGHT;
  ALGO_execute(&algo, &tree, 63);
  /* C01: every occupied leaf has counted every other occupied leaf exactly once, itself never, nothing else */
  for(long a = 0; a < NLEAF; ++a) if(g_occ[a])
    for(long b = 0; b < NLEAF; ++b)
      __CPROVER_assert(*g_rhs_of_leaf[a][b] == ((g_occ[b] && a != b) ? 1 : 0), "C01: each leaf receives exactly one contribution from every other occupied leaf and none from itself");
  /* C01 (equivalent form): multipoles at and below the upper working level are the sums over contained leaves */
  for(long lv = (stop > 0 ? stop : 0); lv < HEIGHT; ++lv)
    for(long i = 0; i < MAXCELLS; ++i) if(i < g_ncells[lv])
      for(long s = 0; s < NLEAF; ++s)
        __CPROVER_assert(g_mult[lv][i]->c[s] == ((g_occ[s] && leaf_in_cell(s, lv, g_cells[lv][i])) ? 1 : 0), "C01: every cell's multipole is the sum over the particles it contains");
  __CPROVER_assert(g_min_level >= stop, "C12: no cell operator is applied above the upper working level");
  CANARY();
}

/*@ harness bounded_execute_staged flags=max-field-sensitivity-array-size:4096 unwind=UNW unwindset=USET bounded=DIM,HEIGHT:all-occupancies,all-groupings,1-particle-per-leaf plain=1 enumerate=tree defs=PLAIN_STUBS props=C12,C15 timeout=3000 mem=24000 */
void bounded_execute_staged(void)
{
  struct TbfAlgorithm algo; struct TbfVerifTree tree;
  build_tree(&tree);
  algo.configuration.treeHeight = HEIGHT;
  algo.stopUpperLevel = 2;
  ghost_cfg_equal = 1; g_ops_ran = 0; g_min_level = HEIGHT;
  /* the documented split: bottom-to-top, transfer, top-to-bottom */
  ALGO_execute(&algo, &tree, 2 | 4);
  __CPROVER_assert((g_ops_ran & ~(2 | 4)) == 0, "C12: the bottom-to-top flags trigger only P2M and M2M");
  for(long a = 0; a < NLEAF; ++a) if(g_occ[a]) for(long b = 0; b < NLEAF; ++b) __CPROVER_assert(*g_rhs_of_leaf[a][b] == 0, "C12: upward stages write no particle result");
  ALGO_execute(&algo, &tree, 8 | 1);
  __CPROVER_assert((g_ops_ran & ~(2 | 4 | 8 | 1 | 64)) == 0, "C12: the transfer flags trigger only M2L and P2P");
  ALGO_execute(&algo, &tree, 16 | 32);
  for(long a = 0; a < NLEAF; ++a) if(g_occ[a])
    for(long b = 0; b < NLEAF; ++b)
      __CPROVER_assert(*g_rhs_of_leaf[a][b] == ((g_occ[b] && a != b) ? 1 : 0), "C12: the staged run leaves the same result as a full run");
  CANARY();
}

/*@ harness bounded_execute_p2p_only flags=max-field-sensitivity-array-size:4096 unwind=UNW unwindset=USET bounded=DIM,HEIGHT:all-occupancies,all-groupings plain=1 enumerate=tree defs=PLAIN_STUBS props=C12,C15 timeout=3000 mem=24000 */
void bounded_execute_p2p_only(void)
{
  struct TbfAlgorithm algo; struct TbfVerifTree tree;
  build_tree(&tree);
  algo.configuration.treeHeight = HEIGHT;
  algo.stopUpperLevel = 2;
  ghost_cfg_equal = 1; g_ops_ran = 0; g_min_level = HEIGHT;
  ALGO_execute(&algo, &tree, 1);
  __CPROVER_assert((g_ops_ran & ~(1 | 64)) == 0, "C12: the near-field flag alone triggers only the direct operators");
  for(long lv = 0; lv < HEIGHT; ++lv) for(long i = 0; i < MAXCELLS; ++i) if(i < g_ncells[lv]) for(long s = 0; s < NLEAF; ++s)
    __CPROVER_assert(g_mult[lv][i]->c[s] == 0 && g_loc[lv][i]->c[s] == 0, "C12: the near-field flag alone changes no cell expansion");
  for(long a = 0; a < NLEAF; ++a) if(g_occ[a]) for(long b = 0; b < NLEAF; ++b)
    __CPROVER_assert(*g_rhs_of_leaf[a][b] == ((g_occ[b] && (a - b == 1 || b - a == 1)) ? 1 : 0), "C01: direct interactions happen exactly once per adjacent leaf pair");
  CANARY();
}
#endif
