/* kernelif.h - contracts for TbfGroupKernelInterface (src/algorithms/sequential/tbfgroupkernelinterface.hpp)
 * C01/C02/C08/C09 components K1..K6, C12 frames, C15.
 * The user kernel is abstract: K_* below are models that (1) record, in ghost state, whether the call carries
 * the ghost witness and with which arguments, and (2) write nondeterministic values to their output arguments
 * only (the assumed kernel frame).  Witnesses: ghost_W (leaf / child / interaction position). */
#ifdef SPEC_PART_MODEL
#include "prelude.h"
#ifndef VEC_CAP
#define VEC_CAP 8
#endif
#include "stl_model.h"
#endif

#include "groups.h"

#ifdef SPEC_PART_CONTRACTS
typedef struct TbfGroupKernelInterface KI;
typedef struct VerifKernel Kernel;

/* ghost record of kernel calls */
long gk_hits;            /* number of kernel calls that carry the witness */
_Bool gk_ok;             /* every such call had exactly the expected arguments */
long gk_calls;           /* number of kernel calls */
_Bool gk_nonempty;       /* no call with an empty source list */
const void *gx_symb, *gx_out, *gx_in, *gx_idx, *gx_data0, *gx_rhs0;  /* expected argument addresses for the witness */
long gx_nb, gx_level, gx_code;
long nondet_long(void);

/* ---- abstract kernels (models, assumed frame: outputs only) */
void K_P2M(Kernel *self, const CellHeader *symb, const long *idx, const struct ARR_CDATA *data, const long nb, struct VerifMultipole *out)
{
  gk_calls++;
  if((const void *)symb == gx_symb) {
    gk_hits++;
    gk_ok = gk_ok && (const void *)out == gx_out && (const void *)idx == gx_idx && nb == gx_nb && (const void *)data->d[0] == gx_data0;
  }
#ifndef DBG_NOWRITE
  out->m0 = nondet_long();
#endif
}
void K_L2P(Kernel *self, const CellHeader *symb, const struct VerifLocal *loc, const long *idx, const struct ARR_CDATA *data, struct ARR_RHS *rhs, const long nb)
{
  gk_calls++;
  if((const void *)loc == gx_in) {
    gk_hits++;
    gk_ok = gk_ok && (const void *)symb == gx_symb && (const void *)idx == gx_idx && nb == gx_nb && (const void *)data->d[0] == gx_data0 && (const void *)rhs->d[0] == gx_rhs0;
  }
  if(nb > 0) { long k = nondet_long(); __CPROVER_assume(0 <= k && k < nb); rhs->d[0][k] = nondet_long(); rhs->d[NBRHS - 1][k] = nondet_long(); }
}
void K_P2PInner(Kernel *self, const LeafHeader *symb, const long *idx, const struct ARR_CDATA *data, struct ARR_RHS *rhs, const long nb)
{
  gk_calls++;
  if((const void *)symb == gx_symb) {
    gk_hits++;
    gk_ok = gk_ok && (const void *)idx == gx_idx && nb == gx_nb && (const void *)data->d[0] == gx_data0 && (const void *)rhs->d[0] == gx_rhs0;
  }
  if(nb > 0) { long k = nondet_long(); __CPROVER_assume(0 <= k && k < nb); rhs->d[0][k] = nondet_long(); rhs->d[NBRHS - 1][k] = nondet_long(); }
}

#define GK_ASSIGNS gk_hits, gk_ok, gk_calls
#define W_LEAF_OK(pg) (0 <= ghost_W && ghost_W < PG_N(pg))

/* ---- K1: P2M - every leaf of the group gets exactly one P2M with its own particles, header and multipole */
void KI_P2M(const KI *self, Kernel *inKernel, const PartGroup *inParticleGroup, CellGroup *inLeafGroup)
__CPROVER_requires(parts_wf(inParticleGroup) && cells_symb_wf(inLeafGroup) && cells_data_wf(inLeafGroup) && PG_N(inParticleGroup) == CG_N(inLeafGroup))
__CPROVER_requires(ghost_mirror_cells == (const void *)CG_CELLS(inLeafGroup) && gk_hits == 0 && gk_ok && gk_calls == 0)
__CPROVER_requires(!W_LEAF_OK(inParticleGroup) || (gx_out == (const void *)&CG_MULT(inLeafGroup)[ghost_W] && gx_symb == (const void *)&CG_CELLS(inLeafGroup)[ghost_W]))
__CPROVER_ensures(gk_calls == PG_N(inParticleGroup))
__CPROVER_ensures(!W_LEAF_OK(inParticleGroup) || (gk_hits == 1 && gk_ok))
__CPROVER_assigns(GK_ASSIGNS, __CPROVER_object_whole(CG_MULT(inLeafGroup)));

#define LC_KI_P2M_0 \
  __CPROVER_assigns(idxLeaf, GK_ASSIGNS, __CPROVER_object_whole(CG_MULT(inLeafGroup))) \
  __CPROVER_loop_invariant(0 <= idxLeaf && idxLeaf <= PG_N(inParticleGroup) && gk_calls == idxLeaf && 0 <= gk_hits && gk_hits <= idxLeaf) \
  __CPROVER_loop_invariant(!W_LEAF_OK(inParticleGroup) || (gk_ok && gk_hits == (ghost_W < idxLeaf ? 1 : 0))) \
  __CPROVER_decreases(PG_N(inParticleGroup) - idxLeaf)

/* ---- K5: L2P */
void KI_L2P(const KI *self, Kernel *inKernel, const CellGroup *inLeafGroup, PartGroup *inParticleGroup)
__CPROVER_requires(parts_wf(inParticleGroup) && cells_symb_wf(inLeafGroup) && cells_data_wf(inLeafGroup) && PG_N(inParticleGroup) == CG_N(inLeafGroup))
__CPROVER_requires(ghost_mirror_cells == (const void *)CG_CELLS(inLeafGroup) && gk_hits == 0 && gk_ok && gk_calls == 0)
__CPROVER_requires(!W_LEAF_OK(inParticleGroup) || (gx_in == (const void *)&CG_LOC(inLeafGroup)[ghost_W] && gx_symb == (const void *)&CG_CELLS(inLeafGroup)[ghost_W]))
__CPROVER_ensures(gk_calls == PG_N(inParticleGroup))
__CPROVER_ensures(!W_LEAF_OK(inParticleGroup) || (gk_hits == 1 && gk_ok))
__CPROVER_assigns(GK_ASSIGNS, __CPROVER_object_whole(PG_RHS(inParticleGroup)));

#define LC_KI_L2P_0 \
  __CPROVER_assigns(idxLeaf, GK_ASSIGNS, __CPROVER_object_whole(PG_RHS(inParticleGroup))) \
  __CPROVER_loop_invariant(0 <= idxLeaf && idxLeaf <= PG_N(inParticleGroup) && gk_calls == idxLeaf && 0 <= gk_hits && gk_hits <= idxLeaf) \
  __CPROVER_loop_invariant(!W_LEAF_OK(inParticleGroup) || (gk_ok && gk_hits == (ghost_W < idxLeaf ? 1 : 0))) \
  __CPROVER_decreases(PG_N(inParticleGroup) - idxLeaf)

/* ---- K6b: P2PInner */
void KI_P2PInner(const KI *self, Kernel *inKernel, PartGroup *inParticleGroup)
__CPROVER_requires(parts_wf(inParticleGroup) && gk_hits == 0 && gk_ok && gk_calls == 0)
__CPROVER_requires(!W_LEAF_OK(inParticleGroup) || gx_symb == (const void *)&PG_LEAVES(inParticleGroup)[ghost_W])
__CPROVER_ensures(gk_calls == PG_N(inParticleGroup))
__CPROVER_ensures(!W_LEAF_OK(inParticleGroup) || (gk_hits == 1 && gk_ok))
__CPROVER_assigns(GK_ASSIGNS, __CPROVER_object_whole(PG_RHS(inParticleGroup)));

#define LC_KI_P2PInner_0 \
  __CPROVER_assigns(idxLeaf, GK_ASSIGNS, __CPROVER_object_whole(PG_RHS(inParticleGroup))) \
  __CPROVER_loop_invariant(0 <= idxLeaf && idxLeaf <= PG_N(inParticleGroup) && gk_calls == idxLeaf && 0 <= gk_hits && gk_hits <= idxLeaf) \
  __CPROVER_loop_invariant(!W_LEAF_OK(inParticleGroup) || (gk_ok && gk_hits == (ghost_W < idxLeaf ? 1 : 0))) \
  __CPROVER_decreases(PG_N(inParticleGroup) - idxLeaf)

#endif

/* ===================================================================================== */
#ifdef SPEC_PART_HARNESS
#define PACC TbfParticlesContainer__getNbLeaves,TbfParticlesContainer__getLeafSpacialIndex,TbfParticlesContainer__getParticleData__c,TbfParticlesContainer__getParticleIndexes__c,TbfParticlesContainer__getNbParticlesInLeaf

static inline void set_leaf_expect(const PartGroup *pg)
{
  /* expected arguments for the witness leaf, from the particle group's abstract view */
  if(W_LEAF_OK(pg)) {
    __CPROVER_assume(LEAF_INST(pg, ghost_W));
    gx_idx = PG_PIDX(pg) + PG_OFF(pg, ghost_W);
    gx_nb = PG_CNT(pg, ghost_W);
    gx_data0 = PG_DATA_PTR(pg, ghost_W, 0);
    gx_rhs0 = PG_RHS_PTR(pg, ghost_W, 0);
  }
}

/*@ harness dbg_p2m enforce=KI_P2M replace=TbfParticlesContainer__getNbLeaves,TbfParticlesContainer__getLeafSpacialIndex,TbfParticlesContainer__getParticleData__c,TbfParticlesContainer__getParticleIndexes__c,TbfParticlesContainer__getNbParticlesInLeaf,TbfCellsContainer__getNbCells,TbfCellsContainer__getCellSpacialIndex,TbfCellsContainer__getCellSymbData,TbfCellsContainer__getCellMultipole loopcontracts=1 unwind=8 defs=ELIM_WF,LIGHT_WF,DBG_NOWRITE timeout=300 props=DBG */
void h_p2m(void);
void dbg_p2m(void) { h_p2m(); }
/*@ harness h_p2m enforce=KI_P2M replace=TbfParticlesContainer__getNbLeaves,TbfParticlesContainer__getLeafSpacialIndex,TbfParticlesContainer__getNbParticlesInLeaf,TbfCellsContainer__getNbCells,TbfCellsContainer__getCellSpacialIndex loopcontracts=1 pre_unwind=TbfParticlesContainer__getParticleData__c.0:6 unwind=8 defs=ELIM_WF,LIGHT_WF props=C01,C02,C08,C12,C15 */
void h_p2m(void)
{
  KI ki; Kernel k; PartGroup pg; CellGroup cg; long n, np;
  mk_parts(&pg, n, np); mk_cells(&cg, n);
  ghost_mirror_cells = CG_CELLS(&cg);
  gk_hits = 0; gk_ok = 1; gk_calls = 0;
  if(W_LEAF_OK(&pg)) { gx_out = &CG_MULT(&cg)[ghost_W]; gx_symb = &CG_CELLS(&cg)[ghost_W]; }
  set_leaf_expect(&pg);
  KI_P2M(&ki, &k, &pg, &cg);
  CANARY();
}

/*@ harness h_l2p enforce=KI_L2P replace=TbfParticlesContainer__getNbLeaves,TbfParticlesContainer__getLeafSpacialIndex,TbfParticlesContainer__getParticleData__c,TbfParticlesContainer__getParticleIndexes,TbfParticlesContainer__getParticleRhs,TbfParticlesContainer__getNbParticlesInLeaf,TbfCellsContainer__getNbCells,TbfCellsContainer__getCellSpacialIndex,TbfCellsContainer__getCellSymbData,TbfCellsContainer__getCellLocal__c loopcontracts=1 unwind=8 defs=ELIM_WF,LIGHT_WF props=C01,C02,C08,C12,C15 */
void h_l2p(void)
{
  KI ki; Kernel k; PartGroup pg; CellGroup cg; long n, np;
  mk_parts(&pg, n, np); mk_cells(&cg, n);
  ghost_mirror_cells = CG_CELLS(&cg);
  gk_hits = 0; gk_ok = 1; gk_calls = 0;
  if(W_LEAF_OK(&pg)) { gx_in = &CG_LOC(&cg)[ghost_W]; gx_symb = &CG_CELLS(&cg)[ghost_W]; }
  set_leaf_expect(&pg);
  KI_L2P(&ki, &k, &cg, &pg);
  CANARY();
}

/*@ harness h_p2pinner enforce=KI_P2PInner replace=TbfParticlesContainer__getNbLeaves,TbfParticlesContainer__getLeafSymbData,TbfParticlesContainer__getParticleData__c,TbfParticlesContainer__getParticleIndexes,TbfParticlesContainer__getParticleRhs,TbfParticlesContainer__getNbParticlesInLeaf loopcontracts=1 unwind=8 defs=ELIM_WF,LIGHT_WF props=C01,C02,C08,C12,C15 */
void h_p2pinner(void)
{
  KI ki; Kernel k; PartGroup pg; long n, np;
  mk_parts(&pg, n, np);
  gk_hits = 0; gk_ok = 1; gk_calls = 0;
  if(W_LEAF_OK(&pg)) { gx_symb = &PG_LEAVES(&pg)[ghost_W]; }
  set_leaf_expect(&pg);
  KI_P2PInner(&ki, &k, &pg);
  CANARY();
}
#endif
