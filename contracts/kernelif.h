/* kernelif.h - contracts for TbfGroupKernelInterface (src/algorithms/sequential/tbfgroupkernelinterface.hpp)
 * C01/C02/C08/C09 components K1..K6, C12 frames, C15.
 * The user kernel is abstract: K_* below are models that (1) record, in ghost state, whether the call carries
 * the ghost witness and with which arguments, and (2) write nondeterministic values to their output arguments
 * only (the assumed kernel frame).  Witnesses: ghost_W (leaf / child / interaction position). */
#ifdef SPEC_PART_MODEL
#include "prelude.h"
#ifndef VEC_CAP
#define VEC_CAP 8
#endif
#include "stl_model.h"
#endif

#include "groups.h"

#ifdef SPEC_PART_CONTRACTS
typedef struct TbfGroupKernelInterface KI;
typedef struct VerifKernel Kernel;

/* ghost record of kernel calls */
long gk_hits;            /* number of kernel calls that carry the witness */
_Bool gk_ok;             /* every such call had exactly the expected arguments */
long gk_calls;           /* number of kernel calls */
_Bool gk_nonempty;       /* no call with an empty source list */
const void *gx_symb, *gx_out, *gx_in, *gx_idx, *gx_data0, *gx_rhs0;  /* expected argument addresses for the witness */
long gx_nb, gx_level, gx_code;
long nondet_long(void);

/* ---- abstract kernels (models, assumed frame: outputs only) */
void K_P2M(Kernel *self, const CellHeader *symb, const long *idx, const struct ARR_CDATA *data, const long nb, struct VerifMultipole *out)
{
  gk_calls++;
  if((const void *)symb == gx_symb) {
    gk_hits++;
    gk_ok = gk_ok && (const void *)out == gx_out && (const void *)idx == gx_idx && nb == gx_nb && (const void *)data->d[0] == gx_data0;
  }
#ifndef DBG_NOWRITE
  out->m0 = nondet_long();
#endif
}
void K_L2P(Kernel *self, const CellHeader *symb, const struct VerifLocal *loc, const long *idx, const struct ARR_CDATA *data, struct ARR_RHS *rhs, const long nb)
{
  gk_calls++;
  if((const void *)loc == gx_in) {
    gk_hits++;
    gk_ok = gk_ok && (const void *)symb == gx_symb && (const void *)idx == gx_idx && nb == gx_nb && (const void *)data->d[0] == gx_data0 && (const void *)rhs->d[0] == gx_rhs0;
  }
  if(nb > 0) { long k = nondet_long(); __CPROVER_assume(0 <= k && k < nb); rhs->d[0][k] = nondet_long(); rhs->d[NBRHS - 1][k] = nondet_long(); }
}
void K_P2PInner(Kernel *self, const LeafHeader *symb, const long *idx, const struct ARR_CDATA *data, struct ARR_RHS *rhs, const long nb)
{
  gk_calls++;
  if((const void *)symb == gx_symb) {
    gk_hits++;
    gk_ok = gk_ok && (const void *)idx == gx_idx && nb == gx_nb && (const void *)data->d[0] == gx_data0 && (const void *)rhs->d[0] == gx_rhs0;
  }
  if(nb > 0) { long k = nondet_long(); __CPROVER_assume(0 <= k && k < nb); rhs->d[0][k] = nondet_long(); rhs->d[NBRHS - 1][k] = nondet_long(); }
}


/* ---- logging models of the remaining operators (used by the bounded wrapper harnesses) */
#define LOGCAP 4
#define SRCCAP 4
struct klog { int op; const void *symb; const void *out; const void *in; long level; long nb; const void *src[SRCCAP]; long code[SRCCAP]; const void *idx_s, *idx_t; long code1; };
struct klog glog[LOGCAP]; long glog_n;
static inline struct klog *klog_new(int op) { __CPROVER_assert(glog_n < LOGCAP, "model: kernel call log capacity sufficient"); struct klog *l = &glog[glog_n++]; l->op = op; return l; }
void K_M2M(Kernel *self, const CellHeader *symb, const long level, const struct std_vector_cVerifMultipole_p *children, struct VerifMultipole *out, const long *positions, const long nb)
{
  struct klog *l = klog_new(3); l->symb = symb; l->out = out; l->level = level; l->nb = nb;
  __CPROVER_assert(nb == (long)children->size && nb <= SRCCAP, "C02: the child count handed to M2M equals the number of children in the list");
  for(long k = 0; k < SRCCAP; ++k) if(k < nb) { l->src[k] = children->data[k]; l->code[k] = positions[k]; }
  out->m0 = nondet_long();
}
void K_M2L(Kernel *self, const CellHeader *symb, const long level, const struct std_vector_cVerifMultipole_p *srcs, const long *positions, const long nb, struct VerifLocal *out)
{
  struct klog *l = klog_new(4); l->symb = symb; l->out = out; l->level = level; l->nb = nb;
  __CPROVER_assert(nb == (long)srcs->size && nb <= SRCCAP, "C02: the source count handed to M2L equals the number of sources in the list");
  for(long k = 0; k < SRCCAP; ++k) if(k < nb) { l->src[k] = srcs->data[k]; l->code[k] = positions[k]; }
  out->l0 = nondet_long();
}
void K_L2L(Kernel *self, const CellHeader *symb, const long level, const struct VerifLocal *parent, struct std_vector_VerifLocal_p *children, const long *positions, const long nb)
{
  struct klog *l = klog_new(5); l->symb = symb; l->in = parent; l->level = level; l->nb = nb;
  __CPROVER_assert(nb == (long)children->size && nb <= SRCCAP, "C02: the child count handed to L2L equals the number of children in the list");
  for(long k = 0; k < SRCCAP; ++k) if(k < nb) { l->src[k] = children->data[k]; l->code[k] = positions[k]; children->data[k]->l0 = nondet_long(); }
}
void K_P2P(Kernel *self, const LeafHeader *ssymb, const long *sidx, const struct ARR_CDATA *sdata, struct ARR_RHS *srhs, const long snb,
           const LeafHeader *tsymb, const long *tidx, const struct ARR_CDATA *tdata, struct ARR_RHS *trhs, const long tnb, const long code)
{
  struct klog *l = klog_new(1); l->symb = tsymb; l->in = ssymb; l->idx_s = sidx; l->idx_t = tidx; l->nb = snb; l->level = tnb; l->code1 = code;
  l->src[0] = sdata->d[0]; l->src[1] = tdata->d[0]; l->src[2] = srhs->d[0]; l->src[3] = trhs->d[0];
}
void K_P2PTsm(Kernel *self, const LeafHeader *ssymb, const long *sidx, const struct ARR_CDATA *sdata, const long snb,
              const LeafHeader *tsymb, const long *tidx, const struct ARR_CDATA *tdata, struct ARR_RHS *trhs, const long tnb, const long code)
{
  struct klog *l = klog_new(7); l->symb = tsymb; l->in = ssymb; l->idx_s = sidx; l->idx_t = tidx; l->nb = snb; l->level = tnb; l->code1 = code;
  l->src[0] = sdata->d[0]; l->src[1] = tdata->d[0]; l->src[3] = trhs->d[0];
}

#define GK_ASSIGNS gk_hits, gk_ok, gk_calls
#define W_LEAF_OK(pg) (0 <= ghost_W && ghost_W < PG_N(pg))

/* ---- K1: P2M - every leaf of the group gets exactly one P2M with its own particles, header and multipole */
void KI_P2M(const KI *self, Kernel *inKernel, const PartGroup *inParticleGroup, CellGroup *inLeafGroup)
__CPROVER_requires(parts_wf(inParticleGroup) && cells_symb_wf(inLeafGroup) && cells_data_wf(inLeafGroup) && PG_N(inParticleGroup) == CG_N(inLeafGroup))
__CPROVER_requires(ghost_mirror_cells == (const void *)CG_CELLS(inLeafGroup) && gk_hits == 0 && gk_ok && gk_calls == 0)
__CPROVER_requires(!W_LEAF_OK(inParticleGroup) || (gx_out == (const void *)&CG_MULT(inLeafGroup)[ghost_W] && gx_symb == (const void *)&CG_CELLS(inLeafGroup)[ghost_W]))
__CPROVER_ensures(gk_calls == PG_N(inParticleGroup))
__CPROVER_ensures(!W_LEAF_OK(inParticleGroup) || (gk_hits == 1 && gk_ok))
__CPROVER_assigns(GK_ASSIGNS, __CPROVER_object_whole(CG_MULT(inLeafGroup)));

#define LC_KI_P2M_0 \
  __CPROVER_assigns(idxLeaf, GK_ASSIGNS, __CPROVER_object_whole(CG_MULT(inLeafGroup))) \
  __CPROVER_loop_invariant(0 <= idxLeaf && idxLeaf <= PG_N(inParticleGroup) && gk_calls == idxLeaf && 0 <= gk_hits && gk_hits <= idxLeaf) \
  __CPROVER_loop_invariant(!W_LEAF_OK(inParticleGroup) || (gk_ok && gk_hits == (ghost_W < idxLeaf ? 1 : 0))) \
  __CPROVER_decreases(PG_N(inParticleGroup) - idxLeaf)

/* ---- K5: L2P */
void KI_L2P(const KI *self, Kernel *inKernel, const CellGroup *inLeafGroup, PartGroup *inParticleGroup)
__CPROVER_requires(parts_wf(inParticleGroup) && cells_symb_wf(inLeafGroup) && cells_data_wf(inLeafGroup) && PG_N(inParticleGroup) == CG_N(inLeafGroup))
__CPROVER_requires(ghost_mirror_cells == (const void *)CG_CELLS(inLeafGroup) && gk_hits == 0 && gk_ok && gk_calls == 0)
__CPROVER_requires(!W_LEAF_OK(inParticleGroup) || (gx_in == (const void *)&CG_LOC(inLeafGroup)[ghost_W] && gx_symb == (const void *)&CG_CELLS(inLeafGroup)[ghost_W]))
__CPROVER_ensures(gk_calls == PG_N(inParticleGroup))
__CPROVER_ensures(!W_LEAF_OK(inParticleGroup) || (gk_hits == 1 && gk_ok))
__CPROVER_assigns(GK_ASSIGNS, __CPROVER_object_whole(PG_RHS(inParticleGroup)));

#define LC_KI_L2P_0 \
  __CPROVER_assigns(idxLeaf, GK_ASSIGNS, __CPROVER_object_whole(PG_RHS(inParticleGroup))) \
  __CPROVER_loop_invariant(0 <= idxLeaf && idxLeaf <= PG_N(inParticleGroup) && gk_calls == idxLeaf && 0 <= gk_hits && gk_hits <= idxLeaf) \
  __CPROVER_loop_invariant(!W_LEAF_OK(inParticleGroup) || (gk_ok && gk_hits == (ghost_W < idxLeaf ? 1 : 0))) \
  __CPROVER_decreases(PG_N(inParticleGroup) - idxLeaf)

/* ---- K6b: P2PInner */
void KI_P2PInner(const KI *self, Kernel *inKernel, PartGroup *inParticleGroup)
__CPROVER_requires(parts_wf(inParticleGroup) && gk_hits == 0 && gk_ok && gk_calls == 0)
__CPROVER_requires(!W_LEAF_OK(inParticleGroup) || gx_symb == (const void *)&PG_LEAVES(inParticleGroup)[ghost_W])
__CPROVER_ensures(gk_calls == PG_N(inParticleGroup))
__CPROVER_ensures(!W_LEAF_OK(inParticleGroup) || (gk_hits == 1 && gk_ok))
__CPROVER_assigns(GK_ASSIGNS, __CPROVER_object_whole(PG_RHS(inParticleGroup)));

#define LC_KI_P2PInner_0 \
  __CPROVER_assigns(idxLeaf, GK_ASSIGNS, __CPROVER_object_whole(PG_RHS(inParticleGroup))) \
  __CPROVER_loop_invariant(0 <= idxLeaf && idxLeaf <= PG_N(inParticleGroup) && gk_calls == idxLeaf && 0 <= gk_hits && gk_hits <= idxLeaf) \
  __CPROVER_loop_invariant(!W_LEAF_OK(inParticleGroup) || (gk_ok && gk_hits == (ghost_W < idxLeaf ? 1 : 0))) \
  __CPROVER_decreases(PG_N(inParticleGroup) - idxLeaf)

#endif

/* ===================================================================================== */
#ifdef SPEC_PART_HARNESS
#define PACC TbfParticlesContainer__getNbLeaves,TbfParticlesContainer__getLeafSpacialIndex,TbfParticlesContainer__getParticleData__c,TbfParticlesContainer__getParticleIndexes__c,TbfParticlesContainer__getNbParticlesInLeaf

static inline void set_leaf_expect(const PartGroup *pg)
{
  /* expected arguments for the witness leaf, from the particle group's abstract view */
  if(W_LEAF_OK(pg)) {
    __CPROVER_assume(LEAF_INST(pg, ghost_W));
    gx_idx = PG_PIDX(pg) + PG_OFF(pg, ghost_W);
    gx_nb = PG_CNT(pg, ghost_W);
    gx_data0 = PG_DATA_PTR(pg, ghost_W, 0);
    gx_rhs0 = PG_RHS_PTR(pg, ghost_W, 0);
  }
}

/*@ harness h_p2m enforce=KI_P2M replace=TbfParticlesContainer__getNbLeaves,TbfParticlesContainer__getLeafSpacialIndex,TbfParticlesContainer__getNbParticlesInLeaf,TbfCellsContainer__getNbCells,TbfCellsContainer__getCellSpacialIndex loopcontracts=1 pre_unwind=TbfParticlesContainer__getParticleData__c.0:6 unwind=8 defs=ELIM_WF,LIGHT_WF props=C01,C02,C08,C12,C15 */
void h_p2m(void)
{
  KI ki; Kernel k; PartGroup pg; CellGroup cg; long n, np;
  mk_parts(&pg, n, np); mk_cells(&cg, n);
  ghost_mirror_cells = CG_CELLS(&cg);
  gk_hits = 0; gk_ok = 1; gk_calls = 0;
  if(W_LEAF_OK(&pg)) { gx_out = &CG_MULT(&cg)[ghost_W]; gx_symb = &CG_CELLS(&cg)[ghost_W]; }
  set_leaf_expect(&pg);
  KI_P2M(&ki, &k, &pg, &cg);
  CANARY();
}

/*@ harness h_l2p enforce=KI_L2P replace=TbfParticlesContainer__getNbLeaves,TbfParticlesContainer__getLeafSpacialIndex,TbfParticlesContainer__getParticleData__c,TbfParticlesContainer__getParticleIndexes,TbfParticlesContainer__getParticleRhs,TbfParticlesContainer__getNbParticlesInLeaf,TbfCellsContainer__getNbCells,TbfCellsContainer__getCellSpacialIndex,TbfCellsContainer__getCellSymbData,TbfCellsContainer__getCellLocal__c loopcontracts=1 unwind=8 defs=ELIM_WF,LIGHT_WF props=C01,C02,C08,C12,C15 */
void h_l2p(void)
{
  KI ki; Kernel k; PartGroup pg; CellGroup cg; long n, np;
  mk_parts(&pg, n, np); mk_cells(&cg, n);
  ghost_mirror_cells = CG_CELLS(&cg);
  gk_hits = 0; gk_ok = 1; gk_calls = 0;
  if(W_LEAF_OK(&pg)) { gx_in = &CG_LOC(&cg)[ghost_W]; gx_symb = &CG_CELLS(&cg)[ghost_W]; }
  set_leaf_expect(&pg);
  KI_L2P(&ki, &k, &cg, &pg);
  CANARY();
}

/*@ harness h_p2pinner enforce=KI_P2PInner replace=TbfParticlesContainer__getNbLeaves,TbfParticlesContainer__getLeafSymbData,TbfParticlesContainer__getParticleData__c,TbfParticlesContainer__getParticleIndexes,TbfParticlesContainer__getParticleRhs,TbfParticlesContainer__getNbParticlesInLeaf loopcontracts=1 unwind=8 defs=ELIM_WF,LIGHT_WF props=C01,C02,C08,C12,C15 */
void h_p2pinner(void)
{
  KI ki; Kernel k; PartGroup pg; long n, np;
  mk_parts(&pg, n, np);
  gk_hits = 0; gk_ok = 1; gk_calls = 0;
  if(W_LEAF_OK(&pg)) { gx_symb = &PG_LEAVES(&pg)[ghost_W]; }
  set_leaf_expect(&pg);
  KI_P2PInner(&ki, &k, &pg);
  CANARY();
}

/* =====================================================================================
 * BOUNDED STAND-INS for the wrappers whose loops carry no loop contract (M2M, L2L, M2LInGroup, M2LBetweenGroups,
 * P2PInGroup, P2PBetweenGroups, P2PBetweenGroupsTsm): real extracted bodies of the wrapper AND of every container
 * accessor / lookup it uses; groups of exactly BN cells with symbolic sorted indices, interaction lists of CFG_NL
 * entries (enumerated 0..4) with symbolic contents satisfying the list builders' guarantees; complete unwinding.
 * The kernel model logs every call; the assertions quantify over the list / the cells with constant-bound loops. */
#ifndef CFG_NL
#define CFG_NL 2
#endif
#ifdef BOUNDED_KI
/* contract-derived bodies of the space-index functions (their L1 contracts are proved in unit morton) */
long TbfMortonSpaceIndex__getParentIndex(const struct TbfMortonSpaceIndex *self, long inIndex) { return inIndex >> DIM; }
long TbfMortonSpaceIndex__getNbChildrenPerCell(void) { return 1L << DIM; }
long TbfMortonSpaceIndex__childPositionFromParent(const struct TbfMortonSpaceIndex *self, const long inIndexChild) { return inIndexChild & ((1L << DIM) - 1); }
long TbfMortonSpaceIndex__getNbInteractionsPerCell(void) { return DIM == 1 ? 3 : DIM == 2 ? 27 : 189; }
#endif
#define BN 3
#define BMAXIDX (1L << (DIM * 2))
static void bk_cells(CellGroup *g, long idx[BN])
{
  mk_cells(g, BN);
  __CPROVER_assume(0 <= idx[0] && idx[0] < idx[1] && idx[1] < idx[2] && idx[2] < BMAXIDX);
  CellsHeader *h = (CellsHeader *)g->objectData.blockRawPtrs[0];
  CellHeader *c = (CellHeader *)g->objectData.blockRawPtrs[1];
  for(int i = 0; i < BN; ++i) c[i].spaceIndex = idx[i];
  h->startingSpaceIndex = idx[0]; h->endingSpaceIndex = idx[BN - 1];
}
static void bk_parts(PartGroup *g, long idx[BN])
{
  mk_parts(g, BN, 2 * BN);
  __CPROVER_assume(0 <= idx[0] && idx[0] < idx[1] && idx[1] < idx[2] && idx[2] < BMAXIDX);
  PartsHeader *h = (PartsHeader *)g->objectData.blockRawPtrs[0];
  LeafHeader *c = (LeafHeader *)g->objectData.blockRawPtrs[1];
  for(int i = 0; i < BN; ++i) { c[i].spaceIndex = idx[i]; c[i].nbParticles = 2; c[i].offSet = 2 * i; }
  h->startingSpaceIndex = idx[0]; h->endingSpaceIndex = idx[BN - 1];
}
static long bk_pos(const long idx[BN], long q) { for(long i = 0; i < BN; ++i) if(idx[i] == q) return i; return -1; }
static void bk_list(struct std_vector_TbfXtoXInteraction *v, struct TbfVectorView *view, struct TbfXtoXInteraction e[4], const long tidx[BN], long codemax)
{
  /* what the per-group list builders guarantee (C11-L2): target position in range and consistent with the target
   * index, position codes in range, no two entries with the same (target, source) pair */
  for(int i = 0; i < 4; ++i) if(i < CFG_NL) {
    __CPROVER_assume(0 <= e[i].globalTargetPos && e[i].globalTargetPos < BN && e[i].indexTarget == tidx[e[i].globalTargetPos]);
    __CPROVER_assume(0 <= e[i].arrayIndexSrc && e[i].arrayIndexSrc < codemax && 0 <= e[i].indexSrc && e[i].indexSrc < BMAXIDX);
    for(int j = 0; j < i; ++j) __CPROVER_assume(e[j].globalTargetPos != e[i].globalTargetPos || e[j].indexSrc != e[i].indexSrc);
  }
  v->data = e; v->size = CFG_NL; v->cap = 4;
  view->vector = v; view->offset = 0; view->length = CFG_NL;
}
#define POW7D 343
#define POW3D 27

/*@ harness bounded_m2l_between plain=1 unwind=6 objbits=14 mem=24000 enumerate=CFG_NL:0..4 defs=BOUNDED_KI bounded=groups=3cells,list<=4 props=C01,C02,C08,C09,C15 timeout=900 */
void bounded_m2l_between(void)
{
  KI ki; Kernel k; CellGroup tg, sg; long ti[BN], si[BN], level;
  bk_cells(&tg, ti); bk_cells(&sg, si);
  struct std_vector_TbfXtoXInteraction v; struct TbfVectorView view; struct TbfXtoXInteraction e[4];
  bk_list(&v, &view, e, ti, POW7D);
  glog_n = 0;
  KI_M2LBetweenGroups(&ki, level, &k, &tg, &sg, &view);
  long delivered = 0;
  for(int c = 0; c < LOGCAP; ++c) if(c < glog_n) {
    __CPROVER_assert(glog[c].op == 4 && glog[c].nb >= 1 && glog[c].level == level, "C02: M2L calls carry the list's level and are never empty");
    long tp = (const struct VerifLocal *)glog[c].out - CG_LOC(&tg);
    __CPROVER_assert(0 <= tp && tp < BN && glog[c].symb == (const void *)&CG_CELLS(&tg)[tp], "C02: M2L target local and target header belong to the same cell of the target group");
    delivered += glog[c].nb;
  }
  long expected = 0;
  for(int i = 0; i < 4; ++i) if(i < CFG_NL) {
    long sp = bk_pos(si, e[i].indexSrc);
    long cnt = 0;
    for(int c = 0; c < LOGCAP; ++c) if(c < glog_n && glog[c].out == (const void *)&CG_LOC(&tg)[e[i].globalTargetPos])
      for(int q = 0; q < SRCCAP; ++q) if(q < glog[c].nb && sp >= 0 && glog[c].src[q] == (const void *)&CG_MULT(&sg)[sp]) { cnt++; __CPROVER_assert(glog[c].code[q] == e[i].arrayIndexSrc, "C02: every source is delivered with its own position code"); }
    __CPROVER_assert(cnt == (sp >= 0 ? 1 : 0), "C01: an out-of-group interaction is delivered exactly once iff its source cell exists in the source group");
    if(sp >= 0) expected++;
  }
  __CPROVER_assert(delivered == expected, "C01: nothing else is delivered");
  CANARY();
}

/*@ harness bounded_m2l_ingroup plain=1 unwind=6 objbits=14 mem=24000 enumerate=CFG_NL:0..4 defs=BOUNDED_KI bounded=group=3cells,list<=4 props=C01,C02,C08,C15 timeout=900 */
void bounded_m2l_ingroup(void)
{
  KI ki; Kernel k; CellGroup tg; long ti[BN], level;
  bk_cells(&tg, ti);
  struct std_vector_TbfXtoXInteraction v; struct TbfVectorView view; struct TbfXtoXInteraction e[4];
  bk_list(&v, &view, e, ti, POW7D);
  for(int i = 0; i < 4; ++i) if(i < CFG_NL) __CPROVER_assume(bk_pos(ti, e[i].indexSrc) >= 0);   /* in-group list: sources exist (self-inclusion test) */
  glog_n = 0;
  KI_M2LInGroup(&ki, level, &k, &tg, &view);
  long delivered = 0;
  for(int c = 0; c < LOGCAP; ++c) if(c < glog_n) {
    __CPROVER_assert(glog[c].op == 4 && glog[c].nb >= 1 && glog[c].level == level, "C02: M2L calls carry the list's level and are never empty");
    long tp = (const struct VerifLocal *)glog[c].out - CG_LOC(&tg);
    __CPROVER_assert(0 <= tp && tp < BN && glog[c].symb == (const void *)&CG_CELLS(&tg)[tp], "C02: M2L target local and header belong to the same cell");
    delivered += glog[c].nb;
  }
  for(int i = 0; i < 4; ++i) if(i < CFG_NL) {
    long sp = bk_pos(ti, e[i].indexSrc), cnt = 0;
    for(int c = 0; c < LOGCAP; ++c) if(c < glog_n && glog[c].out == (const void *)&CG_LOC(&tg)[e[i].globalTargetPos])
      for(int q = 0; q < SRCCAP; ++q) if(q < glog[c].nb && glog[c].src[q] == (const void *)&CG_MULT(&tg)[sp]) { cnt++; __CPROVER_assert(glog[c].code[q] == e[i].arrayIndexSrc, "C02: every source is delivered with its own position code"); }
    __CPROVER_assert(cnt == 1, "C01: every in-group interaction is delivered exactly once");
  }
  __CPROVER_assert(delivered == CFG_NL, "C01: nothing else is delivered");
  CANARY();
}

static void bk_check_p2p(const struct klog *l, const PartGroup *sg, long sp, const PartGroup *tg, long tp, long code, _Bool tsm)
{
  __CPROVER_assert(l->in == (const void *)&PG_LEAVES(sg)[sp] && l->symb == (const void *)&PG_LEAVES(tg)[tp], "C02: P2P receives the headers of the listed source and target leaves");
  __CPROVER_assert(l->idx_s == (const void *)(PG_PIDX(sg) + PG_OFF(sg, sp)) && l->idx_t == (const void *)(PG_PIDX(tg) + PG_OFF(tg, tp)), "C02: P2P receives each leaf's own particle indices");
  __CPROVER_assert(l->nb == PG_CNT(sg, sp) && l->level == PG_CNT(tg, tp) && l->code1 == code, "C02: P2P receives each leaf's own particle count and the entry's position code");
  __CPROVER_assert(l->src[0] == (const void *)PG_DATA_PTR(sg, sp, 0) && l->src[1] == (const void *)PG_DATA_PTR(tg, tp, 0) && l->src[3] == (const void *)PG_RHS_PTR(tg, tp, 0) && (tsm || l->src[2] == (const void *)PG_RHS_PTR(sg, sp, 0)), "C02: P2P receives each leaf's own data and result arrays");
}
/*@ harness bounded_p2p_between plain=1 unwind=6 objbits=14 mem=24000 enumerate=CFG_NL:0..3 defs=BOUNDED_KI bounded=groups=3leaves,list<=3 props=C01,C02,C08,C15 timeout=900 */
void bounded_p2p_between(void)
{
  KI ki; Kernel k; PartGroup tg, sg; long ti[BN], si[BN];
  bk_parts(&tg, ti); bk_parts(&sg, si);
  struct std_vector_TbfXtoXInteraction v; struct TbfVectorView view; struct TbfXtoXInteraction e[4];
  bk_list(&v, &view, e, ti, POW3D);
  glog_n = 0;
  KI_P2PBetweenGroups(&ki, &k, &sg, &tg, &view);
  long expected = 0;
  for(int i = 0; i < 4; ++i) if(i < CFG_NL) {
    long sp = bk_pos(si, e[i].indexSrc), cnt = 0;
    for(int c = 0; c < LOGCAP; ++c) if(c < glog_n && sp >= 0 && glog[c].in == (const void *)&PG_LEAVES(&sg)[sp] && glog[c].symb == (const void *)&PG_LEAVES(&tg)[e[i].globalTargetPos]) { cnt++; bk_check_p2p(&glog[c], &sg, sp, &tg, e[i].globalTargetPos, e[i].arrayIndexSrc, 0); }
    __CPROVER_assert(cnt == (sp >= 0 ? 1 : 0), "C01: an out-of-group neighbour pair interacts exactly once iff the source leaf exists");
    if(sp >= 0) expected++;
  }
  __CPROVER_assert(glog_n == expected, "C01: no other direct interaction happens");
  CANARY();
}
/*@ harness bounded_p2p_between_tsm plain=1 unwind=6 objbits=14 mem=24000 enumerate=CFG_NL:0..3 defs=BOUNDED_KI bounded=groups=3leaves,list<=3 props=C09,C02,C15 timeout=900 */
void bounded_p2p_between_tsm(void)
{
  KI ki; Kernel k; PartGroup tg, sg; long ti[BN], si[BN];
  bk_parts(&tg, ti); bk_parts(&sg, si);
  struct std_vector_TbfXtoXInteraction v; struct TbfVectorView view; struct TbfXtoXInteraction e[4];
  bk_list(&v, &view, e, ti, POW3D);
  glog_n = 0;
  KI_P2PBetweenGroupsTsm(&ki, &k, &sg, &tg, &view);
  long expected = 0;
  for(int i = 0; i < 4; ++i) if(i < CFG_NL) {
    long sp = bk_pos(si, e[i].indexSrc), cnt = 0;
    for(int c = 0; c < LOGCAP; ++c) if(c < glog_n && sp >= 0 && glog[c].in == (const void *)&PG_LEAVES(&sg)[sp] && glog[c].symb == (const void *)&PG_LEAVES(&tg)[e[i].globalTargetPos]) { cnt++; bk_check_p2p(&glog[c], &sg, sp, &tg, e[i].globalTargetPos, e[i].arrayIndexSrc, 1); __CPROVER_assert(glog[c].op == 7, "C09: the target/source wrapper uses the one-sided operator"); }
    __CPROVER_assert(cnt == (sp >= 0 ? 1 : 0), "C09: each listed (target, source) leaf pair interacts exactly once iff the source leaf exists");
    if(sp >= 0) expected++;
  }
  __CPROVER_assert(glog_n == expected, "C09: no other direct interaction happens");
  CANARY();
}
/*@ harness bounded_p2p_ingroup plain=1 unwind=6 objbits=14 mem=24000 enumerate=CFG_NL:0..3 defs=BOUNDED_KI bounded=group=3leaves,list<=3 props=C01,C02,C08,C15 timeout=900 */
void bounded_p2p_ingroup(void)
{
  KI ki; Kernel k; PartGroup tg; long ti[BN];
  bk_parts(&tg, ti);
  struct std_vector_TbfXtoXInteraction v; struct TbfVectorView view; struct TbfXtoXInteraction e[4];
  bk_list(&v, &view, e, ti, POW3D);
  for(int i = 0; i < 4; ++i) if(i < CFG_NL) __CPROVER_assume(bk_pos(ti, e[i].indexSrc) >= 0);
  glog_n = 0;
  KI_P2PInGroup(&ki, &k, &tg, &view);
  for(int i = 0; i < 4; ++i) if(i < CFG_NL) {
    long sp = bk_pos(ti, e[i].indexSrc), cnt = 0;
    for(int c = 0; c < LOGCAP; ++c) if(c < glog_n && glog[c].in == (const void *)&PG_LEAVES(&tg)[sp] && glog[c].symb == (const void *)&PG_LEAVES(&tg)[e[i].globalTargetPos]) { cnt++; bk_check_p2p(&glog[c], &tg, sp, &tg, e[i].globalTargetPos, e[i].arrayIndexSrc, 0); }
    __CPROVER_assert(cnt == 1, "C01: every in-group neighbour pair interacts exactly once");
  }
  __CPROVER_assert(glog_n == CFG_NL, "C01: no other direct interaction happens");
  CANARY();
}

/* M2M / L2L: lower group = 3 consecutive cells of a level, upper group = 3 consecutive cells of the level above,
 * with the tree-closure precondition stated finitely: every lower cell's parent that falls inside the upper
 * group's range is a cell of the upper group, every upper cell inside the parents' range of the lower group has a
 * child in it, and at least one parent-child link exists (what the pass guarantees for the pairs it visits). */
static _Bool bk_closure(const long lo[BN], const long up[BN])
{
  _Bool link = 0;
  for(int i = 0; i < BN; ++i) { long p = lo[i] >> DIM; if(up[0] <= p && p <= up[BN - 1]) { if(bk_pos(up, p) < 0) return 0; link = 1; } }
  for(int j = 0; j < BN; ++j) if((lo[0] >> DIM) <= up[j] && up[j] <= (lo[BN - 1] >> DIM)) { _Bool has = 0; for(int i = 0; i < BN; ++i) if((lo[i] >> DIM) == up[j]) has = 1; if(!has) return 0; }
  return link;
}
/*@ harness bounded_m2m plain=1 unwind=6 objbits=14 mem=24000 defs=BOUNDED_KI bounded=groups=3cells props=C01,C02,C08,C15 timeout=900 */
void bounded_m2m(void)
{
  KI ki; Kernel k; CellGroup lg, ug; long li[BN], ui[BN], level;
  bk_cells(&lg, li); bk_cells(&ug, ui);
  __CPROVER_assume(ui[BN - 1] < (1L << DIM) && bk_closure(li, ui));
  glog_n = 0;
  KI_M2M(&ki, level, &k, &lg, &ug);
  for(int i = 0; i < BN; ++i) {
    long pp = bk_pos(ui, li[i] >> DIM), cnt = 0;
    for(int c = 0; c < LOGCAP; ++c) if(c < glog_n)
      for(int q = 0; q < SRCCAP; ++q) if(q < glog[c].nb && glog[c].src[q] == (const void *)&CG_MULT(&lg)[i]) {
        cnt++;
        __CPROVER_assert(pp >= 0 && glog[c].out == (const void *)&CG_MULT(&ug)[pp] && glog[c].symb == (const void *)&CG_CELLS(&ug)[pp], "C02: a child is handed to M2M together with its own parent");
        __CPROVER_assert(glog[c].code[q] == (li[i] & ((1L << DIM) - 1)) && glog[c].level == level, "C02: the child position code is the child's octant; the level is the parent's");
      }
    __CPROVER_assert(cnt == (pp >= 0 ? 1 : 0), "C01: every child whose parent is in the upper group is handed over exactly once, the others never");
  }
  for(int c = 0; c < LOGCAP; ++c) if(c < glog_n) __CPROVER_assert(glog[c].op == 3 && 1 <= glog[c].nb && glog[c].nb <= (1L << DIM), "C02: M2M is never called with an empty child list");
  CANARY();
}
/*@ harness bounded_l2l plain=1 unwind=6 objbits=14 mem=24000 defs=BOUNDED_KI bounded=groups=3cells props=C01,C02,C08,C15 timeout=900 */
void bounded_l2l(void)
{
  KI ki; Kernel k; CellGroup lg, ug; long li[BN], ui[BN], level;
  bk_cells(&lg, li); bk_cells(&ug, ui);
  __CPROVER_assume(ui[BN - 1] < (1L << DIM) && bk_closure(li, ui));
  glog_n = 0;
  KI_L2L(&ki, level, &k, &ug, &lg);
  for(int i = 0; i < BN; ++i) {
    long pp = bk_pos(ui, li[i] >> DIM), cnt = 0;
    for(int c = 0; c < LOGCAP; ++c) if(c < glog_n)
      for(int q = 0; q < SRCCAP; ++q) if(q < glog[c].nb && glog[c].src[q] == (const void *)&CG_LOC(&lg)[i]) {
        cnt++;
        __CPROVER_assert(pp >= 0 && glog[c].in == (const void *)&CG_LOC(&ug)[pp] && glog[c].symb == (const void *)&CG_CELLS(&ug)[pp], "C02: a child is handed to L2L together with its own parent");
        __CPROVER_assert(glog[c].code[q] == (li[i] & ((1L << DIM) - 1)) && glog[c].level == level, "C02: the child position code is the child's octant; the level is the parent's");
      }
    __CPROVER_assert(cnt == (pp >= 0 ? 1 : 0), "C01: every child whose parent is in the upper group receives exactly one L2L, the others none");
  }
  for(int c = 0; c < LOGCAP; ++c) if(c < glog_n) __CPROVER_assert(glog[c].op == 5 && 1 <= glog[c].nb && glog[c].nb <= (1L << DIM), "C02: L2L is never called with an empty child list");
  CANARY();
}
#endif
